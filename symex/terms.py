"""Hash-consed term layer with constant folding, interval and possible-bits analysis.

Terms are built by the proxy values (symex.proxies) while the real code runs; they are
translated to z3 only when the engine needs a solver verdict (to_z3) and can be
evaluated in pure Python under a model (evaluate).

Sorts: 'I' mathematical integers (Python int), 'R' exact reals (Fraction), 'B' booleans.
"""
from fractions import Fraction
import math

INT, REAL, BOOL = 'I', 'R', 'B'

_tab = {}
_count = [0]


class T(object):
    __slots__ = ('op', 'a', 's', 'lo', 'hi', 'bits', 'z', 'id')

    def __repr__(self):
        return show(self)


def table_size():
    return len(_tab)


def _mk(op, a, s, lo=None, hi=None, bits=None):
    key = (op, a, s)
    t = _tab.get(key)
    if t is None:
        t = T()
        t.op = op; t.a = a; t.s = s; t.lo = lo; t.hi = hi; t.bits = bits; t.z = None
        _count[0] += 1
        t.id = _count[0]
        _tab[key] = t
    return t


def show(t, depth=6):
    if t.op == 'const':
        return str(t.a[0])
    if t.op == 'var':
        return t.a[0]
    if depth <= 0:
        return '...'
    if t.op == 'sum':
        return '(+ %s %s)' % (t.a[0], ' '.join('%s*%s' % (c, show(x, depth - 1)) for c, x in t.a[1]))
    return '(' + t.op + ' ' + ' '.join(show(x, depth - 1) if isinstance(x, T) else str(x) for x in t.a) + ')'


def children(t):
    if t.op == 'sum':
        return [x for c, x in t.a[1]]
    return [x for x in t.a if isinstance(x, T)]


def same(x, y):
    """structural equality (identity is the fast path)"""
    if x is y:
        return True
    if x.op != y.op or x.s != y.s or len(x.a) != len(y.a):
        return False
    if x.op == 'sum':
        if x.a[0] != y.a[0] or len(x.a[1]) != len(y.a[1]):
            return False
        return all(c1 == c2 and same(a1, a2) for (c1, a1), (c2, a2) in zip(x.a[1], y.a[1]))
    for p, q in zip(x.a, y.a):
        if isinstance(p, T):
            if not isinstance(q, T) or not same(p, q):
                return False
        elif p != q:
            return False
    return True


# ------------------------------------------------------------------ constants / variables

def const(v, s=None):
    if s is None:
        if isinstance(v, bool):
            s = BOOL
        elif isinstance(v, int):
            s = INT
        else:
            s = REAL
    if s == BOOL:
        return TRUE if v else FALSE
    if s == REAL and not isinstance(v, Fraction):
        v = to_fraction(v)
    bits = v if (s == INT and v >= 0) else None
    return _mk('const', (v,), s, v, v, bits)


def to_fraction(v):
    if isinstance(v, Fraction):
        return v
    if isinstance(v, int):
        return Fraction(v)
    if isinstance(v, float):
        return Fraction(repr(v))
    raise TypeError(v)


TRUE = _mk('const', (True,), BOOL)
FALSE = _mk('const', (False,), BOOL)


def var(name, s, lo=None, hi=None):
    bits = None
    if s == INT and lo is not None and lo >= 0 and hi is not None:
        bits = (1 << int(hi).bit_length()) - 1
    return _mk('var', (name, lo, hi), s, lo, hi, bits)


def is_const(t):
    return t.op == 'const'


def cval(t):
    return t.a[0]


def pbits(t):
    """possible-ones mask of a non-negative integer term, or None"""
    if t.bits is not None:
        return t.bits
    if t.s == INT and t.lo is not None and t.lo >= 0 and t.hi is not None:
        return (1 << int(t.hi).bit_length()) - 1
    return None


def _ba(a, b):
    return None if a is None or b is None else a + b


# Linear arithmetic is kept in canonical form: a term is a constant, an atom (variable, idiv, imod,
# toint, ite, non-linear product, quotient) or a 'sum' node  k0 + k1*a1 + ... + kn*an  with atoms
# sorted by creation id and non-zero coefficients.  Equal linear expressions are therefore the same
# object, common summands cancel in comparisons, and (256*h + l) // 256 folds to h.

def linparts(t):
    """(constant, ((coeff, atom), ...)) of an INT/REAL term"""
    if t.op == 'const':
        return t.a[0], ()
    if t.op == 'sum':
        return t.a[0], t.a[1]
    return 0, ((1, t),)


def _bits_of_part(c, a):
    if c > 0 and (c & (c - 1)) == 0 if isinstance(c, int) else False:
        b = pbits(a)
        return None if b is None else b * c
    return None


def mk_sum(k, parts, s):
    """canonical term for k + sum(c*a); parts: iterable of (coeff, atom)"""
    acc = {}
    atoms = {}
    real = (s == REAL)
    for c, a in parts:
        if c == 0:
            continue
        if real and not isinstance(c, Fraction):
            c = Fraction(c)
        i = a.id
        if i in acc:
            acc[i] += c
        else:
            acc[i] = c
            atoms[i] = a
    items = tuple((acc[i], atoms[i]) for i in sorted(acc) if acc[i] != 0)
    if s == REAL and not isinstance(k, Fraction):
        k = Fraction(k)
    if not items:
        return const(k, s)
    if len(items) == 1 and k == 0 and items[0][0] == 1:
        return items[0][1]
    lo = hi = k
    for c, a in items:
        l, h = (a.lo, a.hi) if c > 0 else (a.hi, a.lo)
        lo = None if lo is None or l is None else lo + c * l
        hi = None if hi is None or h is None else hi + c * h
    bits = None
    if s == INT and k >= 0:
        bits = k
        for c, a in items:
            b = _bits_of_part(c, a)
            if b is None or (bits & b):
                bits = None
                break
            bits |= b
    return _mk('sum', (k, items), s, lo, hi, bits)


def add(x, y):
    kx, px = linparts(x)
    ky, py = linparts(y)
    return mk_sum(kx + ky, px + py, x.s)


def neg(x):
    k, p = linparts(x)
    return mk_sum(-k, tuple((-c, a) for c, a in p), x.s)


def sub(x, y):
    kx, px = linparts(x)
    ky, py = linparts(y)
    return mk_sum(kx - ky, px + tuple((-c, a) for c, a in py), x.s)


def scale(c, x):
    k, p = linparts(x)
    return mk_sum(c * k, tuple((c * cc, a) for cc, a in p), x.s)


def mul(x, y):
    if y.op == 'const':
        x, y = y, x
    if x.op == 'const':
        return scale(x.a[0], y)
    lo = hi = None
    if None not in (x.lo, x.hi, y.lo, y.hi):
        ps = [x.lo * y.lo, x.lo * y.hi, x.hi * y.lo, x.hi * y.hi]
        lo, hi = min(ps), max(ps)
    if x.id > y.id:
        x, y = y, x
    return _mk('mul', (x, y), x.s, lo, hi)


def idiv(x, c):
    """floor division of an integer term by a positive integer constant"""
    assert isinstance(c, int) and c > 0
    if c == 1:
        return x
    if x.op == 'const':
        return const(x.a[0] // c, INT)
    lo = None if x.lo is None else x.lo // c
    hi = None if x.hi is None else x.hi // c
    if lo is not None and lo == hi:
        return const(lo, INT)
    k, parts = linparts(x)
    # (c*A + B) // c == A + B // c
    div = tuple((cc // c, a) for cc, a in parts if cc % c == 0)
    if div:
        rest = mk_sum(k % c, tuple((cc, a) for cc, a in parts if cc % c != 0), INT)
        return add(mk_sum(k // c, div, INT), idiv(rest, c))
    if k >= c or k < 0:
        return add(const(k // c, INT), idiv(mk_sum(k % c, parts, INT), c))
    if x.op == 'idiv':
        return idiv(x.a[0], x.a[1] * c)
    bits = None
    if (c & (c - 1)) == 0:
        b = pbits(x)
        if b is not None:
            bits = b // c
    return _mk('idiv', (x, c), INT, lo, hi, bits)


def imod(x, c):
    assert isinstance(c, int) and c > 0
    if c == 1:
        return const(0, INT)
    if x.op == 'const':
        return const(x.a[0] % c, INT)
    k, parts = linparts(x)
    if any(cc % c == 0 for cc, a in parts) or k >= c or k < 0:
        x = mk_sum(k % c, tuple((cc, a) for cc, a in parts if cc % c != 0), INT)
        if x.op == 'const':
            return const(x.a[0] % c, INT)
    if x.lo is not None and x.hi is not None and x.lo // c == x.hi // c:
        return add(x, const(-c * (x.lo // c), INT))
    if x.op == 'imod' and x.a[1] % c == 0:
        return imod(x.a[0], c)
    bits = None
    if (c & (c - 1)) == 0:
        b = pbits(x)
        if b is not None:
            bits = b & (c - 1)
    return _mk('imod', (x, c), INT, 0, c - 1, bits)


def toreal(x):
    if x.s == REAL:
        return x
    if x.op == 'const':
        return const(Fraction(x.a[0]), REAL)
    if x.op == 'sum':
        k, parts = x.a
        return mk_sum(Fraction(k), tuple((Fraction(c), toreal(a)) for c, a in parts), REAL)
    if x.op == 'toint' and False:
        pass
    return _mk('toreal', (x,), REAL, x.lo, x.hi)


def toint(x):
    """floor of a real term"""
    if x.s == INT:
        return x
    if x.op == 'const':
        return const(math.floor(x.a[0]), INT)
    if x.op == 'toreal':
        return x.a[0]
    k, parts = linparts(x)
    # integer-valued summands leave the floor
    ip = tuple((int(c), a.a[0]) for c, a in parts if a.op == 'toreal' and c.denominator == 1)
    if ip or math.floor(k) != 0:
        rest = mk_sum(k - math.floor(k), tuple((c, a) for c, a in parts if not (a.op == 'toreal' and c.denominator == 1)), REAL)
        return add(mk_sum(math.floor(k), ip, INT), toint(rest))
    lo = None if x.lo is None else math.floor(x.lo)
    hi = None if x.hi is None else math.floor(x.hi)
    if lo is not None and lo == hi:
        return const(lo, INT)
    return _mk('toint', (x,), INT, lo, hi)


def rdiv(x, y):
    if y.op == 'const':
        if y.a[0] == 0:
            raise ZeroDivisionError('division by zero')
        return scale(1 / Fraction(y.a[0]), x)
    lo = hi = None
    if y.lo is not None and y.lo > 0 and x.lo is not None and x.lo >= 0:
        lo = 0
        if x.hi is not None:
            hi = Fraction(x.hi) / Fraction(y.lo)
    return _mk('rdiv', (x, y), REAL, lo, hi)


def ite(c, x, y):
    if c.op == 'const':
        return x if c.a[0] else y
    if x is y:
        return x
    if x.s == BOOL:
        return or_(and_(c, x), and_(not_(c), y))
    lo = None if x.lo is None or y.lo is None else min(x.lo, y.lo)
    hi = None if x.hi is None or y.hi is None else max(x.hi, y.hi)
    bits = None
    bx, by = pbits(x), pbits(y)
    if bx is not None and by is not None:
        bits = bx | by
    return _mk('ite', (c, x, y), x.s, lo, hi, bits)


# ------------------------------------------------------------------ bit operations on ints

def _mask_runs(mask):
    runs = []
    i = 0
    while mask >> i:
        if (mask >> i) & 1:
            j = i
            while (mask >> j) & 1:
                j += 1
            runs.append((i, j))
            i = j
        else:
            i += 1
    return runs


def band(x, m):
    """x & m for a non-negative constant mask m; exact for every integer x"""
    assert isinstance(m, int) and m >= 0
    if x.op == 'const':
        return const(x.a[0] & m, INT)
    b = pbits(x)
    if b is not None:
        if (b & ~m) == 0:
            return x
        m &= b
    if m == 0:
        return const(0, INT)
    r = None
    for (a, e) in _mask_runs(m):
        part = mul(const(1 << a, INT), imod(idiv(x, 1 << a), 1 << (e - a)))
        r = part if r is None else add(r, part)
    return r


class Unsupported(BaseException):
    """operation on symbolic values the term layer cannot express (never caught by the code under test)"""


def bor(x, y, width=None):
    if x.op == 'const' and y.op == 'const':
        return const(x.a[0] | y.a[0], INT)
    bx, by = pbits(x), pbits(y)
    if bx is not None and by is not None and (bx & by) == 0:
        return add(x, y)
    if y.op == 'const' and y.a[0] >= 0:
        return sub(add(x, y), band(x, y.a[0]))
    if x.op == 'const' and x.a[0] >= 0:
        return sub(add(y, x), band(y, x.a[0]))
    if width is None:
        if bx is None or by is None or max(bx, by).bit_length() > 32:
            raise Unsupported('symbolic | symbolic without known width')
        width = max(bx, by).bit_length()
    r = const(0, INT)
    for i in range(width):
        p, q = imod(idiv(x, 1 << i), 2), imod(idiv(y, 1 << i), 2)
        bit = ite(lt(const(0, INT), add(p, q)), const(1 << i, INT), const(0, INT))
        r = add(r, bit)
    return r


def bxor(x, y):
    if x.op == 'const' and y.op == 'const':
        return const(x.a[0] ^ y.a[0], INT)
    bx, by = pbits(x), pbits(y)
    if bx is None or by is None or max(bx, by).bit_length() > 24:
        raise Unsupported('symbolic ^ symbolic without known width')
    r = const(0, INT)
    for i in range(max(bx, by).bit_length()):
        p, q = imod(idiv(x, 1 << i), 2), imod(idiv(y, 1 << i), 2)
        bit = ite(eq(p, q), const(0, INT), const(1 << i, INT))
        r = add(r, bit)
    return r


# ------------------------------------------------------------------ predicates

def _gcd_norm(k, parts):
    """divide an integer relation  sum(parts) ? k  by the gcd of its coefficients (when it divides k)"""
    g = 0
    for c, a in parts:
        g = math.gcd(g, abs(c))
    return g


def _rel(op, x, y):
    """canonical  S op K  /  K op S  for op in lt, le(REAL only), eq;  S constant-free"""
    s = x.s
    k, parts = linparts(sub(x, y))      # x - y = k + P   ;   x op y  <=>  P op -k
    if not parts:
        if op == 'lt':
            return TRUE if k < 0 else FALSE
        if op == 'le':
            return TRUE if k <= 0 else FALSE
        return TRUE if k == 0 else FALSE
    k = -k
    flip = parts[0][0] < 0
    if flip:
        parts = tuple((-c, a) for c, a in parts)
        k = -k
    if s == INT:
        g = _gcd_norm(k, parts)
        if g > 1:
            if op == 'eq':
                if k % g != 0:
                    return FALSE
                parts = tuple((c // g, a) for c, a in parts)
                k //= g
            elif not flip:      # P < k  <=>  P/g < ceil(k/g)
                parts = tuple((c // g, a) for c, a in parts)
                k = -((-k) // g)
            else:               # P > k  <=>  P/g > floor(k/g)
                parts = tuple((c // g, a) for c, a in parts)
                k = k // g
    S = mk_sum(0, parts, s)
    K = const(k, s)
    lo, hi = S.lo, S.hi
    if op == 'eq':
        if (lo is not None and k < lo) or (hi is not None and k > hi):
            return FALSE
        if lo is not None and lo == hi and lo == k:
            return TRUE
        if S.op == 'ite' and S.a[1].op == 'const' and S.a[2].op == 'const':
            p, q = S.a[1].a[0] == k, S.a[2].a[0] == k
            if p and not q:
                return S.a[0]
            if q and not p:
                return not_(S.a[0])
            return TRUE if p else FALSE
        return _mk('eq', (S, K), BOOL)
    if op == 'lt':
        if not flip:        # S < k
            if hi is not None and hi < k:
                return TRUE
            if lo is not None and lo >= k:
                return FALSE
            return _mk('lt', (S, K), BOOL)
        if lo is not None and lo > k:   # k < S
            return TRUE
        if hi is not None and hi <= k:
            return FALSE
        return _mk('lt', (K, S), BOOL)
    # le (REAL)
    if not flip:
        if hi is not None and hi <= k:
            return TRUE
        if lo is not None and lo > k:
            return FALSE
        return _mk('le', (S, K), BOOL)
    if lo is not None and lo >= k:
        return TRUE
    if hi is not None and hi < k:
        return FALSE
    return _mk('le', (K, S), BOOL)


def eq(x, y):
    if x is y:
        return TRUE
    if x.s == BOOL:
        if x.op == 'const':
            return y if x.a[0] else not_(y)
        if y.op == 'const':
            return x if y.a[0] else not_(x)
        if x.id > y.id:
            x, y = y, x
        return _mk('iff', (x, y), BOOL)
    return _rel('eq', x, y)


def lt(x, y):
    if x is y:
        return FALSE
    return _rel('lt', x, y)


def le(x, y):
    if x is y:
        return TRUE
    if x.s == INT:
        return _rel('lt', x, add(y, const(1, INT)))
    return _rel('le', x, y)


def not_(x):
    if x.op == 'const':
        return FALSE if x.a[0] else TRUE
    if x.op == 'not':
        return x.a[0]
    if x.op == 'le':
        return lt(x.a[1], x.a[0])
    return _mk('not', (x,), BOOL)


def and_(x, y):
    if x.op == 'const':
        return y if x.a[0] else FALSE
    if y.op == 'const':
        return x if y.a[0] else FALSE
    if x is y:
        return x
    if x.id > y.id:
        x, y = y, x
    return _mk('and', (x, y), BOOL)


def or_(x, y):
    if x.op == 'const':
        return TRUE if x.a[0] else y
    if y.op == 'const':
        return TRUE if y.a[0] else x
    if x is y:
        return x
    if x.id > y.id:
        x, y = y, x
    return _mk('or', (x, y), BOOL)


def implies(x, y):
    return or_(not_(x), y)


# ------------------------------------------------------------------ evaluation under a model

def var_default(t):
    name, lo, hi = t.a
    if t.s == BOOL:
        return False
    if lo is not None:
        return lo
    if hi is not None and hi < 0:
        return hi
    return 0 if t.s == INT else Fraction(0)


def evaluate(t, model, memo):
    """Python value of term t under model (dict name -> value); memo: dict id -> value"""
    r = memo.get(t.id)
    if r is not None or t.id in memo:
        return r
    stack = [t]
    while stack:
        u = stack[-1]
        if u.id in memo:
            stack.pop()
            continue
        op = u.op
        if op == 'const':
            memo[u.id] = u.a[0]
            stack.pop()
            continue
        if op == 'var':
            v = model.get(u.a[0])
            if v is None:
                v = var_default(u)
            elif u.s == REAL and not isinstance(v, Fraction):
                v = Fraction(v)
            memo[u.id] = v
            stack.pop()
            continue
        if op == 'sum':
            pend = [x for c, x in u.a[1] if x.id not in memo]
        else:
            pend = [x for x in u.a if isinstance(x, T) and x.id not in memo]
        if pend:
            stack.extend(pend)
            continue
        stack.pop()
        if op == 'sum':
            v = u.a[0]
            for c, x in u.a[1]:
                v = v + c * memo[x.id]
            memo[u.id] = v
            continue
        a = [memo[x.id] if isinstance(x, T) else x for x in u.a]
        if op == 'add':
            v = a[0] + a[1]
        elif op == 'sub':
            v = a[0] - a[1]
        elif op == 'mul':
            v = a[0] * a[1]
        elif op == 'idiv':
            v = a[0] // a[1]
        elif op == 'imod':
            v = a[0] % a[1]
        elif op == 'toreal':
            v = Fraction(a[0])
        elif op == 'toint':
            v = math.floor(a[0])
        elif op == 'rdiv':
            v = Fraction(a[0]) / Fraction(a[1]) if a[1] != 0 else Fraction(0)
        elif op == 'ite':
            v = a[1] if a[0] else a[2]
        elif op == 'eq':
            v = a[0] == a[1]
        elif op == 'iff':
            v = bool(a[0]) == bool(a[1])
        elif op == 'lt':
            v = a[0] < a[1]
        elif op == 'le':
            v = a[0] <= a[1]
        elif op == 'not':
            v = not a[0]
        elif op == 'and':
            v = bool(a[0] and a[1])
        elif op == 'or':
            v = bool(a[0] or a[1])
        else:
            raise AssertionError(op)
        memo[u.id] = v
    return memo[t.id]


def has_rdiv_var(t, seen=None):
    """does the term contain a division by a non-constant (z3 leaves x/0 unspecified)"""
    if seen is None:
        seen = set()
    stack = [t]
    while stack:
        u = stack.pop()
        if u.id in seen:
            continue
        seen.add(u.id)
        if u.op == 'rdiv':
            return True
        stack.extend(children(u))
    return False


# ------------------------------------------------------------------ translation to z3

def to_z3(t):
    import z3
    if t.z is not None:
        return t.z
    stack = [t]
    while stack:
        u = stack[-1]
        if u.z is not None:
            stack.pop()
            continue
        op = u.op
        if op == 'const':
            v = u.a[0]
            if u.s == INT:
                u.z = z3.IntVal(v)
            elif u.s == REAL:
                u.z = z3.RealVal(str(v))
            else:
                u.z = z3.BoolVal(v)
            stack.pop()
            continue
        if op == 'var':
            n = u.a[0]
            u.z = z3.Int(n) if u.s == INT else z3.Real(n) if u.s == REAL else z3.Bool(n)
            stack.pop()
            continue
        if op == 'sum':
            pend = [x for c, x in u.a[1] if x.z is None]
        else:
            pend = [x for x in u.a if isinstance(x, T) and x.z is None]
        if pend:
            stack.extend(pend)
            continue
        stack.pop()
        if op == 'sum':
            mkc = (lambda c: z3.IntVal(c)) if u.s == INT else (lambda c: z3.RealVal(str(c)))
            zs = [x.z if c == 1 else mkc(c) * x.z for c, x in u.a[1]]
            if u.a[0] != 0:
                zs.append(mkc(u.a[0]))
            u.z = zs[0] if len(zs) == 1 else z3.Sum(zs)
            continue
        a = [x.z if isinstance(x, T) else x for x in u.a]
        if op == 'add':
            z = a[0] + a[1]
        elif op == 'sub':
            z = a[0] - a[1]
        elif op == 'mul':
            z = a[0] * a[1]
        elif op == 'idiv':
            z = a[0] / z3.IntVal(a[1])
        elif op == 'imod':
            z = a[0] % z3.IntVal(a[1])
        elif op == 'toreal':
            z = z3.ToReal(a[0])
        elif op == 'toint':
            # Skolemised floor: a fresh integer constant; its defining axiom is added by assertion_of()
            z = z3.Int('floor!%d' % u.id)
        elif op == 'rdiv':
            z = a[0] / a[1]
        elif op == 'ite':
            z = z3.If(a[0], a[1], a[2])
        elif op in ('eq', 'iff'):
            z = a[0] == a[1]
        elif op == 'lt':
            z = a[0] < a[1]
        elif op == 'le':
            z = a[0] <= a[1]
        elif op == 'not':
            z = z3.Not(a[0])
        elif op == 'and':
            z = z3.And(a[0], a[1])
        elif op == 'or':
            z = z3.Or(a[0], a[1])
        else:
            raise AssertionError(op)
        u.z = z
    return t.z


def to_smt2(t, memo=None):
    """SMT-LIB2 text of a term (for re-deciding obligations with other solvers)"""
    op = t.op
    if op == 'const':
        v = t.a[0]
        if t.s == BOOL:
            return 'true' if v else 'false'
        if t.s == INT:
            return str(v) if v >= 0 else '(- %d)' % -v
        n, d = v.numerator, v.denominator
        s = '%d.0' % abs(n) if d == 1 else '(/ %d.0 %d.0)' % (abs(n), d)
        return s if n >= 0 else '(- %s)' % s
    if op == 'var':
        return '|%s|' % t.a[0]
    if op == 'sum':
        ps = ['(* %s %s)' % (to_smt2(const(c, t.s)), to_smt2(x)) for c, x in t.a[1]] + [to_smt2(const(t.a[0], t.s))]
        return '(+ %s)' % ' '.join(ps)
    a = [to_smt2(x) if isinstance(x, T) else str(x) for x in t.a]
    m = {'add': '+', 'sub': '-', 'mul': '*', 'idiv': 'div', 'imod': 'mod', 'toreal': 'to_real',
         'toint': 'to_int', 'rdiv': '/', 'ite': 'ite', 'eq': '=', 'iff': '=', 'lt': '<', 'le': '<=',
         'not': 'not', 'and': 'and', 'or': 'or'}[op]
    return '(%s %s)' % (m, ' '.join(a))


def variables(t, acc=None, seen=None):
    if acc is None:
        acc = {}
    if seen is None:
        seen = set()
    stack = [t]
    while stack:
        u = stack.pop()
        if u.id in seen:
            continue
        seen.add(u.id)
        if u.op == 'var':
            acc[u.a[0]] = u
        else:
            stack.extend(children(u))
    return acc


_floor_memo = {}


def floor_atoms(t):
    """toint atoms occurring in t (memoised)"""
    r = _floor_memo.get(t.id)
    if r is not None:
        return r
    acc = []
    seen = set()
    stack = [t]
    while stack:
        u = stack.pop()
        if u.id in seen:
            continue
        seen.add(u.id)
        sub_ = _floor_memo.get(u.id)
        if sub_ is not None and u is not t:
            for a in sub_:
                if a.id not in seen:
                    seen.add(a.id)
                    acc.append(a)
            continue
        if u.op == 'toint':
            acc.append(u)
        stack.extend(children(u))
    r = tuple(acc)
    _floor_memo[t.id] = r
    return r


def assertion_of(t):
    """z3 formula for asserting boolean term t, including the axioms n <= x < n+1 of its floor atoms"""
    import z3
    z = to_z3(t)
    fl = floor_atoms(t)
    if not fl:
        return z
    ax = [z]
    for a in fl:
        n = to_z3(a)
        x = to_z3(a.a[0])
        ax.append(z3.ToReal(n) <= x)
        ax.append(x < z3.ToReal(n) + 1)
    return z3.And(ax)
