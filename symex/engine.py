"""Path-exploring symbolic engine: decision tree + z3, depth-first re-execution.

The harness function is re-run from the start for every path.  Proxy values call
branch() whenever Python needs a concrete truth value; the engine picks an open feasible
side, records it in the tree and continues.  check() turns a property into a validity
query under the current path condition.
"""
import time
import sys
import traceback
from fractions import Fraction

import z3

from . import terms as tm
from .terms import T


class PathAbort(BaseException):
    """current path cannot / should not be continued (infeasible assumption, stop())"""


class Inconclusive(BaseException):
    """engine cannot decide (solver unknown, enumeration guard, budget)"""


class Node(object):
    __slots__ = ('kind', 'term', 'kids', 'done', 'model')

    def __init__(self, model=None):
        self.kind = None
        self.term = None
        self.kids = None
        self.done = False
        self.model = model


class Violation(object):
    def __init__(self, label, detail, inputs, choices, sig=None):
        self.label = label
        self.detail = detail
        self.inputs = inputs      # list of (name, value) in creation order
        self.choices = choices    # list of (name, value)
        self.sig = sig or label
        self.count = 1


def _zval(v):
    if z3.is_int_value(v):
        return v.as_long()
    if z3.is_rational_value(v):
        return Fraction(v.numerator_as_long(), v.denominator_as_long())
    if z3.is_true(v):
        return True
    if z3.is_false(v):
        return False
    if z3.is_algebraic_value(v):
        a = v.approx(30)
        return Fraction(a.numerator_as_long(), a.denominator_as_long())
    raise Inconclusive('model value %r' % (v,))


class Engine(object):
    symbolic = True

    def __init__(self, max_paths=10 ** 7, max_seconds=10 ** 6, solver_timeout_ms=30000, conc_guard=520):
        self.root = Node({})
        self.solver = z3.Solver()
        self.solver.set('timeout', solver_timeout_ms)
        self.zpc = []
        self.max_paths = max_paths
        self.max_seconds = max_seconds
        self.conc_guard = conc_guard
        self.paths = 0
        self.decisions = 0
        self.queries = 0
        self.solver_s = 0.0
        self.obligations = 0
        self.discharged = 0
        self.violations = {}
        self.inconclusive = None
        self.error = None
        self.counters = {}
        self.samples = []
        self.sample_every = 0
        self.monitor_stats = {}
        self.t0 = time.time()
        self.on_path_end = None
        self.nvars = 0
        self.nontrivial_keys = set()
        self.nontrivial_paths = 0
        self._path_nontrivial = False
        # optional re-decision of sampled discharged obligations by other solvers (thorough tier)
        self.second_every = 0
        self.second = {'checked': 0, 'agree': 0, 'disagree': 0, 'undecided': 0, 'solvers': []}
        self._second_n = 0

    # ------------------------------------------------------------- exploration
    def explore(self, fn):
        while not self.root.done:
            if self.paths >= self.max_paths or time.time() - self.t0 > self.max_seconds:
                self.inconclusive = 'budget exhausted after %d paths' % self.paths
                break
            self._begin()
            try:
                fn(self)
            except PathAbort:
                pass
            except (Inconclusive, tm.Unsupported) as e:
                self.inconclusive = '%s: %s' % (type(e).__name__, e)
                self._end()
                break
            except Exception:
                self.error = traceback.format_exc()
                self._end()
                break
            self._end()
            if self.inconclusive:
                break
        return self

    def _begin(self):
        self.cur = self.root
        self.model = self.root.model
        self.memo = {}
        self.trail = []
        self.pc = []
        self.facts = {}
        self.vals = {}
        self.inputs = []
        self.choices = []
        self.zsynced = False
        self.path_notes = []
        self._path_nontrivial = False

    def _end(self):
        self.cur.done = True
        for node in reversed(self.trail):
            if all(k is None or k.done for k in node.kids.values()):
                node.done = True
                node.kids = None
                node.model = None
            else:
                break
        self.paths += 1
        if self._path_nontrivial:
            self.nontrivial_paths += 1
        if self.on_path_end:
            self.on_path_end(self)

    def stop(self):
        raise PathAbort()

    # ------------------------------------------------------------- solver
    def _sync(self):
        pc, zpc = self.pc, self.zpc
        if not self.zsynced:
            k = 0
            n = min(len(pc), len(zpc))
            while k < n and pc[k] is zpc[k]:
                k += 1
            if len(zpc) > k:
                self.solver.pop(len(zpc) - k)
                del zpc[k:]
            self.zsynced = True
        for t in pc[len(zpc):]:
            self.solver.push()
            self.solver.add(tm.assertion_of(t))
            zpc.append(t)

    def _query(self, extra):
        """is pc /\\ extra satisfiable?  returns model dict or None"""
        t = time.time()
        self._sync()
        self.solver.push()
        self.solver.add(tm.assertion_of(extra))
        r = self.solver.check()
        m = None
        if r == z3.sat:
            zm = self.solver.model()
            m = {}
            for d in zm.decls():
                if d.arity() == 0:
                    m[d.name()] = _zval(zm[d])
        self.solver.pop()
        self.queries += 1
        self.solver_s += time.time() - t
        if r == z3.unknown:
            raise Inconclusive('solver unknown: %s' % self.solver.reason_unknown())
        return m

    def margin_terms(self, eps=Fraction(1, 1024)):
        """every comparison between reals on the current path, strengthened by a margin: a model of these
        is not at an exact tie of two instants, so float arithmetic decides the same way"""
        out = []
        e = tm.const(eps, tm.REAL)

        def strong(x, y):      # x < y or x <= y   ->   x + eps <= y
            return tm.le(tm.add(x, e), y)
        for t in self.pc:
            neg = False
            u = t
            if u.op == 'not':
                neg = True
                u = u.a[0]
            if u.op in ('lt', 'le') and u.a[0].s == tm.REAL:
                x, y = u.a
                out.append(strong(y, x) if neg else strong(x, y))
        return out

    def margin_model(self, extra=None):
        """model of the path condition (and extra) away from ties, or None"""
        ms = self.margin_terms()
        if not ms:
            return None
        t = tm.TRUE if extra is None else extra
        for m in ms:
            t = tm.and_(t, m)
        try:
            return self._query(t)
        except Inconclusive:
            return None

    def ev(self, t):
        return tm.evaluate(t, self.model, self.memo)

    def _set_model(self, m):
        if m is not self.model:
            self.model = m
            self.memo = {}

    # ------------------------------------------------------------- decisions
    def _advance(self, node, side, term):
        kid = node.kids[side]
        self.trail.append(node)
        if term is not None:
            self.pc.append(term)
        self.cur = kid
        self._set_model(kid.model)
        self.decisions += 1

    def branch(self, t):
        if t.op == 'const':
            return t.a[0]
        if t.op == 'not':
            return not self.branch(t.a[0])
        f = self.facts.get(t)
        if f is not None:
            return f
        node = self.cur
        if node.kind is None:
            mv = bool(self.ev(t))
            other = self._query(tm.not_(t) if mv else t)
            if other is None and self.second_every:
                # a pruned side: a wrong "infeasible" would silently drop paths
                self._second_n += 1
                if self._second_n % self.second_every == 0:
                    self._redecide(tm.not_(t) if mv else t)
            node.kind = 'br'
            node.term = t
            node.kids = {mv: Node(self.model), (not mv): (Node(other) if other is not None else None)}
        elif node.kind != 'br' or not (node.term is t or tm.same(node.term, t)):
            raise Inconclusive('nondeterministic re-execution at branch: %s vs %s %s' % (node.kind, node.term, t))
        for side in (True, False):
            k = node.kids[side]
            if k is not None and not k.done:
                self.facts[t] = side
                self._advance(node, side, t if side else tm.not_(t))
                return side
        raise Inconclusive('no open side at branch')

    def assume(self, t):
        """add a constraint; abort the path if it cannot hold"""
        if isinstance(t, bool):
            if not t:
                raise PathAbort()
            return
        t = getattr(t, 't', t)
        if t.op == 'const':
            if not t.a[0]:
                raise PathAbort()
            return
        if self.facts.get(t) is True:
            return
        node = self.cur
        if node.kind is None:
            node.kind = 'as'
            node.term = t
            if self.ev(t):
                node.kids = {True: Node(self.model)}
            else:
                m = self._query(t)
                node.kids = {True: (Node(m) if m is not None else None)}
        elif node.kind != 'as' or not (node.term is t or tm.same(node.term, t)):
            raise Inconclusive('nondeterministic re-execution at assume')
        if node.kids[True] is None:
            self.trail.append(node)
            self.cur = Node()
            raise PathAbort()
        self.facts[t] = True
        self._advance(node, True, t)

    def choose(self, n, name='choice'):
        """explicit bounded fork over range(n) (shape choice; recorded for replay)"""
        if isinstance(n, int):
            opts = list(range(n))
        else:
            opts = list(n)
        node = self.cur
        if node.kind is None:
            node.kind = 'ch'
            node.term = len(opts)
            node.kids = dict((i, Node(self.model)) for i in range(len(opts)))
        elif node.kind != 'ch' or node.term != len(opts):
            raise Inconclusive('nondeterministic re-execution at choose(%s)' % name)
        for i in range(len(opts)):
            k = node.kids[i]
            if not k.done:
                self._advance(node, i, None)
                self.choices.append((name, i))
                return opts[i]
        raise Inconclusive('no open side at choose')

    def concretize(self, t):
        if t.op == 'const':
            return t.a[0]
        v = self.vals.get(t)
        if v is not None:
            return v
        n = 0
        while True:
            v = self.ev(t)
            if self.branch(tm.eq(t, tm.const(v, t.s))):
                self.vals[t] = v
                return v
            n += 1
            if n > self.conc_guard:
                f = sys._getframe(2)
                raise Inconclusive('concretisation enumerates > %d values at %s:%d' % (
                    self.conc_guard, f.f_code.co_filename, f.f_lineno))

    # ------------------------------------------------------------- inputs
    def _newvar(self, name, sort, lo, hi):
        self.nvars += 1
        nm = '%s#%d' % (name, len(self.inputs))
        v = tm.var(nm, sort, lo, hi)
        self.inputs.append(v)
        return v

    def int(self, name, lo=None, hi=None):
        from .proxies import SymInt
        v = self._newvar(name, tm.INT, lo, hi)
        if lo is not None:
            self._bound(tm._mk('lt', (tm.const(lo - 1), v), tm.BOOL))
        if hi is not None:
            self._bound(tm._mk('lt', (v, tm.const(hi + 1)), tm.BOOL))
        return SymInt(v)

    def _bound(self, t):
        # bounds are part of the variable (folded by interval analysis) but the solver must know them
        node = self.cur
        if node.kind is None:
            node.kind = 'as'
            node.term = t
            node.kids = {True: Node(self.model)}
        elif node.kind != 'as' or node.term is not t:
            raise Inconclusive('nondeterministic re-execution at input creation')
        self._advance(node, True, t)

    def bool(self, name):
        from .proxies import SymBool
        return SymBool(self._newvar(name, tm.BOOL, None, None))

    def real(self, name, lo=None, hi=None, hi_excl=None):
        from .proxies import SymReal
        ub = hi if hi is not None else hi_excl
        v = self._newvar(name, tm.REAL, None if lo is None else Fraction(lo), None if ub is None else Fraction(ub))
        if lo is not None:
            self._bound(tm._mk('le', (tm.const(Fraction(lo), tm.REAL), v), tm.BOOL))
        if hi is not None:
            self._bound(tm._mk('le', (v, tm.const(Fraction(hi), tm.REAL)), tm.BOOL))
        if hi_excl is not None:
            # default model value lo must satisfy lo < hi_excl
            self._bound(tm._mk('lt', (v, tm.const(Fraction(hi_excl), tm.REAL)), tm.BOOL))
        return SymReal(v)

    # ------------------------------------------------------------- obligations
    def current_inputs(self, model=None):
        model = self.model if model is None else model
        out = []
        for v in self.inputs:
            x = model.get(v.a[0])
            if x is None:
                x = tm.var_default(v)
            out.append((v.a[0], x))
        return out

    def note(self, s):
        self.path_notes.append(s)

    def count(self, key, n=1):
        self.counters[key] = self.counters.get(key, 0) + n
        if key in self.nontrivial_keys:
            self._path_nontrivial = True

    def _violate(self, label, detail, model, sig):
        key = sig or label
        v = self.violations.get(key)
        if v is not None:
            v.count += 1
            return
        self.violations[key] = Violation(label, detail, self.current_inputs(model), list(self.choices), key)

    def check(self, cond, label, detail='', sig=None):
        """property obligation: cond must hold for every value on this path"""
        self.obligations += 1
        st = self.monitor_stats.setdefault(label, [0, 0])
        st[0] += 1
        t = getattr(cond, 't', None)
        if t is None:
            if cond:
                self.discharged += 1
                st[1] += 1
                return True
            self._violate(label, detail, self.margin_model() or self.model, sig)
            return False
        if t.op == 'const':
            return self.check(t.a[0], label, detail, sig)
        f = self.facts.get(t)
        if f is True:
            self.discharged += 1
            st[1] += 1
            return True
        if f is None and self.ev(t):
            m = self._query(tm.not_(t))
        else:
            m = self.model
        if m is not None:
            mm = self.margin_model(tm.not_(t))
            if mm is not None:
                m = mm
        if m is None:
            self.discharged += 1
            st[1] += 1
            self.facts[t] = True
            if self.second_every:
                self._second_n += 1
                if self._second_n % self.second_every == 0:
                    self._redecide(tm.not_(t))
            return True
        self._violate(label, detail, m, sig)
        # continue on the part of the path where the obligation holds
        self.assume(t)
        return False

    def _redecide(self, t):
        """dump  path-condition AND t  (an obligation's negation, or the pruned side of a branch) as SMT-LIB2 and ask
        the cvc5 and z3 4.8 binaries: neither may say sat"""
        import subprocess
        import tempfile
        import shutil
        vs = {}
        seen = set()
        for c in self.pc + [t]:
            tm.variables(c, vs, seen)
        lines = ['(set-logic ALL)']
        for n, v in sorted(vs.items()):
            lines.append('(declare-const |%s| %s)' % (n, {'I': 'Int', 'R': 'Real', 'B': 'Bool'}[v.s]))
        for c in self.pc:
            lines.append('(assert %s)' % tm.to_smt2(c))
        lines.append('(assert %s)' % tm.to_smt2(t))
        lines.append('(check-sat)')
        with tempfile.NamedTemporaryFile('w', suffix='.smt2', delete=False) as f:
            f.write('\n'.join(lines) + '\n')
            path = f.name
        self.second['checked'] += 1
        verdicts = []
        for exe, args in (('cvc5', ['--tlimit=10000']), ('/usr/bin/z3', ['-T:10'])):
            if not shutil.which(exe):
                continue
            if exe not in self.second['solvers']:
                self.second['solvers'].append(exe)
            try:
                out = subprocess.run([exe] + args + [path], capture_output=True, text=True, timeout=15).stdout
            except Exception:
                out = 'timeout'
            if '(error' in out:
                verdicts.append('error')
            elif out.strip().startswith('unsat'):
                verdicts.append('unsat')
            elif out.strip().startswith('sat'):
                verdicts.append('sat')
            else:
                verdicts.append('unknown')
        import os as _os
        if 'sat' in verdicts:
            self.second['disagree'] += 1
            self.second.setdefault('files', []).append(path)
        else:
            _os.unlink(path)
            if verdicts and all(v == 'unsat' for v in verdicts):
                self.second['agree'] += 1
            else:
                self.second['undecided'] += 1

    def feasible(self, cond):
        """can cond hold on this path? (no fork)"""
        t = getattr(cond, 't', None)
        if t is None:
            return bool(cond)
        if t.op == 'const':
            return t.a[0]
        f = self.facts.get(t)
        if f is not None:
            return f
        if self.ev(t):
            return True
        return self._query(t) is not None

    def valid(self, cond):
        """does cond hold for every value on this path? (no fork, no obligation)"""
        t = getattr(cond, 't', None)
        if t is None:
            return bool(cond)
        if t.op == 'const':
            return t.a[0]
        f = self.facts.get(t)
        if f is not None:
            return f
        if not self.ev(t):
            return False
        return self._query(tm.not_(t)) is None
