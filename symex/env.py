"""Binding of the proxy types into the modules under test, and the concrete-mode engine.

The code under test is imported from the repository's current working tree
($VERIF_REPO_SRC, default /repo/src).  Nothing in the repository is modified: builtins
are shadowed by module-level names in mqtt.pdu / mqtt.client.base / mqtt.client.pubsubs
for the duration of a symbolic run and removed again for concrete replays.
"""
import os
import sys
import types
from fractions import Fraction

REPO_SRC = os.environ.get('VERIF_REPO_SRC', '/repo/src')
if REPO_SRC not in sys.path:
    sys.path.insert(0, REPO_SRC)

from twisted.internet import task as _real_task  # noqa: E402

import mqtt  # noqa: E402
import mqtt.pdu as pdu  # noqa: E402
import mqtt.client.base as base  # noqa: E402
import mqtt.client.pubsubs as pubsubs  # noqa: E402
import mqtt.client.publisher as publisher  # noqa: E402
import mqtt.client.subscriber as subscriber  # noqa: E402
import mqtt.client.factory as factory  # noqa: E402
import mqtt.client.interval as interval  # noqa: E402

assert os.path.realpath(mqtt.__file__).startswith(os.path.realpath(REPO_SRC)), (mqtt.__file__, REPO_SRC)

from . import proxies as px  # noqa: E402

MODULES = (pdu, base, pubsubs, publisher, subscriber, factory, interval)


class NoLog(object):
    def __getattr__(self, n):
        return lambda *a, **k: None


_nolog = NoLog()
for _m in (pdu, base, pubsubs, publisher, subscriber, factory):
    _m.log = _nolog

_SHADOWS = {
    pdu: ('bytearray', 'bytes', 'int', 'str'),
    base: ('bytearray', 'bytes'),
    pubsubs: ('bytearray', 'bytes', 'str'),
}
_real_random = interval.random
_real_callLater = base.MQTTBaseProtocol.__dict__['callLater']


class Env(object):
    """per-run environment: clock, jitter source, keepalive-loop recorder"""

    def __init__(self, eng, clock=None):
        self.eng = eng
        self.clock = clock or _real_task.Clock()
        self.loops = []       # (LoopingCall, deferred) created by the code under test
        self.loop_errors = []  # failures that ended a keepalive loop


def install(env):
    """bind stubs (both modes) and, in symbolic mode, the proxy shadows"""
    eng = env.eng
    px.set_engine(eng if eng.symbolic else None)
    if eng.symbolic:
        for m, names in _SHADOWS.items():
            for n in names:
                setattr(m, n, {'bytearray': px.ByteArrayShadow, 'bytes': px.BytesShadow,
                               'int': px.sym_int, 'str': px.StrShadow}[n])
    else:
        uninstall_shadows()

    clock = env.clock

    class LC(_real_task.LoopingCall):
        def __init__(s, *a, **k):
            _real_task.LoopingCall.__init__(s, *a, **k)
            s.clock = clock

        def start(s, *a, **k):
            d = _real_task.LoopingCall.start(s, *a, **k)
            env.loops.append(s)

            def eb(f):
                env.loop_errors.append(f)
                return None
            d.addErrback(eb)
            return d

    base.task = types.SimpleNamespace(LoopingCall=LC)
    env.jitter_calls = 0

    def jitter():
        # a fresh value in [0,1) per call; with a shared pool the i-th call of every world
        # of one path sees the same value (needed when two runs are compared)
        pool = getattr(env, 'jitter_pool', None)
        if pool is None:
            return eng.real('jit', 0, hi_excl=1)
        i = env.jitter_calls
        env.jitter_calls += 1
        while len(pool) <= i:
            pool.append(eng.real('jit', 0, hi_excl=1))
        v = pool[i]
        if isinstance(v, Fraction) and not eng.symbolic:
            return float(v)
        return v
    interval.random = types.SimpleNamespace(random=jitter)
    base.MQTTBaseProtocol.callLater = clock.callLater


def uninstall_shadows():
    for m, names in _SHADOWS.items():
        for n in names:
            if n in m.__dict__:
                delattr(m, n)


def uninstall():
    uninstall_shadows()
    base.task = _real_task
    interval.random = _real_random
    base.MQTTBaseProtocol.callLater = _real_callLater
    px.set_engine(None)


# ------------------------------------------------------------------------------ concrete mode

class ReplayMismatch(Exception):
    pass


def _dec(v):
    if isinstance(v, str):
        return Fraction(v)
    return v


class ConcreteEngine(object):
    """runs the same harness code on native values taken from a model"""
    symbolic = False

    def __init__(self, inputs=(), choices=()):
        self.values = dict((k, _dec(v)) for k, v in inputs)
        self.choice_list = [c for c in choices]
        self.ci = 0
        self.n_inputs = 0
        self.failures = []
        self.obligations = 0
        self.counters = {}
        self.notes = []
        self.choices = []

    def _next(self, name):
        k = '%s#%d' % (name, self.n_inputs)
        self.n_inputs += 1
        return k

    def int(self, name, lo=None, hi=None):
        k = self._next(name)
        v = self.values.get(k)
        if v is None:
            v = lo if lo is not None else (hi if hi is not None and hi < 0 else 0)
        return int(v)

    def bool(self, name):
        k = self._next(name)
        return bool(self.values.get(k, False))

    def real(self, name, lo=None, hi=None, hi_excl=None):
        k = self._next(name)
        v = self.values.get(k)
        if v is None:
            v = lo if lo is not None else 0
        v = Fraction(v)
        return int(v) if v.denominator == 1 and name != 'jit' else float(v)

    def choose(self, n, name='choice'):
        opts = list(range(n)) if isinstance(n, int) else list(n)
        if self.ci < len(self.choice_list):
            nm, i = self.choice_list[self.ci]
            if nm != name:
                raise ReplayMismatch('choice %r expected, %r recorded' % (name, nm))
        else:
            i = 0
        self.ci += 1
        self.choices.append((name, i))
        return opts[i]

    def check(self, cond, label, detail='', sig=None):
        self.obligations += 1
        if not cond:
            self.failures.append((label, detail, sig or label))
            return False
        return True

    def assume(self, cond):
        if not cond:
            raise ReplayMismatch('assumption does not hold in concrete replay')

    def feasible(self, cond):
        return bool(cond)

    def valid(self, cond):
        return bool(cond)

    def count(self, key, n=1):
        self.counters[key] = self.counters.get(key, 0) + n

    def note(self, s):
        self.notes.append(s)

    def stop(self):
        from .engine import PathAbort
        raise PathAbort()
