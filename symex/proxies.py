"""Proxy values: SymInt / SymBool / SymReal / SymBytes / SymStr / SymDict.

They wrap terms (symex.terms) and forward every operation Python performs on them to the
term layer; whenever Python needs a concrete truth value or index the current engine
(symex.proxies.E) forks.
"""
from fractions import Fraction

from . import terms as tm
from .terms import T, INT, REAL, BOOL

E = None  # current engine, set by symex.run


def set_engine(e):
    global E
    E = e


def _it(o):
    """integer term of o, or None"""
    if isinstance(o, SymInt):
        return o.t
    if isinstance(o, SymBool):
        return tm.ite(o.t, tm.const(1), tm.const(0))
    if isinstance(o, bool):
        return tm.const(int(o))
    if isinstance(o, int):
        return tm.const(o)
    return None


def _rt(o):
    """real term of o, or None"""
    if isinstance(o, SymReal):
        return o.t
    if isinstance(o, (float, Fraction)):
        return tm.const(tm.to_fraction(o), REAL)
    i = _it(o)
    if i is not None:
        return tm.toreal(i)
    return None


def _width(t):
    """bit width of a non-negative integer term, asking the solver when the term layer does not know"""
    b = tm.pbits(t)
    if b is not None:
        return b.bit_length()
    for k in (8, 16, 32):
        if E.valid(SymBool(tm.and_(tm.le(tm.const(0), t), tm.lt(t, tm.const(1 << k))))):
            return k
    raise tm.Unsupported('bitwise operation on an integer of unknown width')


def wrap(t):
    if t.op == 'const':
        v = t.a[0]
        if t.s == REAL:
            return v if v.denominator != 1 else v  # keep Fraction
        return v
    if t.s == INT:
        return SymInt(t)
    if t.s == REAL:
        return SymReal(t)
    return SymBool(t)


def term_of(o):
    if isinstance(o, (SymInt, SymBool, SymReal)):
        return o.t
    if isinstance(o, bool):
        return tm.const(o)
    if isinstance(o, int):
        return tm.const(o)
    if isinstance(o, (float, Fraction)):
        return tm.const(tm.to_fraction(o), REAL)
    raise TypeError(o)


class SymBool(object):
    __slots__ = ('t',)

    def __init__(self, t):
        self.t = t

    def __bool__(self):
        return E.branch(self.t)

    def _int(self):
        return SymInt(tm.ite(self.t, tm.const(1), tm.const(0)))

    def __eq__(self, o):
        if isinstance(o, SymBool):
            return wrap(tm.eq(self.t, o.t))
        if isinstance(o, bool):
            return wrap(self.t if o else tm.not_(self.t))
        if isinstance(o, (int, SymInt)):
            return self._int() == o
        return NotImplemented

    def __ne__(self, o):
        r = self.__eq__(o)
        if r is NotImplemented:
            return r
        return wrap(tm.not_(term_of(r)))

    __hash__ = None

    def __invert__(self):
        return ~self._int()

    def __and__(self, o):
        if isinstance(o, (SymBool, bool)):
            return wrap(tm.and_(self.t, term_of(o)))
        return self._int() & o

    __rand__ = __and__

    def __or__(self, o):
        if isinstance(o, (SymBool, bool)):
            return wrap(tm.or_(self.t, term_of(o)))
        return self._int() | o

    __ror__ = __or__

    def __lshift__(self, n):
        return self._int() << n

    def __rshift__(self, n):
        return self._int() >> n

    def __add__(self, o):
        return self._int() + o

    __radd__ = __add__

    def __mul__(self, o):
        return self._int() * o

    __rmul__ = __mul__

    def __index__(self):
        return int(E.branch(self.t))

    def __lt__(self, o):
        return self._int() < o

    def __le__(self, o):
        return self._int() <= o

    def __gt__(self, o):
        return self._int() > o

    def __ge__(self, o):
        return self._int() >= o

    def __repr__(self):
        return '<SymBool %s>' % tm.show(self.t, 3)


def _cmp(a, b, op):
    """a op b as proxy (terms same sort)"""
    if a.s != b.s:
        a, b = tm.toreal(a), tm.toreal(b)
    if op == 'eq':
        return wrap(tm.eq(a, b))
    if op == 'ne':
        return wrap(tm.not_(tm.eq(a, b)))
    if op == 'lt':
        return wrap(tm.lt(a, b))
    if op == 'le':
        return wrap(tm.le(a, b))
    if op == 'gt':
        return wrap(tm.lt(b, a))
    return wrap(tm.le(b, a))


class SymInt(object):
    __slots__ = ('t',)

    def __init__(self, t):
        self.t = t

    # comparisons
    def _c(self, o, op):
        w = _it(o)
        if w is None:
            w = _rt(o)
            if w is None:
                return NotImplemented
        return _cmp(self.t, w, op)

    def __eq__(self, o):
        return self._c(o, 'eq')

    def __ne__(self, o):
        return self._c(o, 'ne')

    def __lt__(self, o):
        return self._c(o, 'lt')

    def __le__(self, o):
        return self._c(o, 'le')

    def __gt__(self, o):
        return self._c(o, 'gt')

    def __ge__(self, o):
        return self._c(o, 'ge')

    def __bool__(self):
        return E.branch(tm.not_(tm.eq(self.t, tm.const(0))))

    def __hash__(self):
        return hash(E.concretize(self.t))

    def __index__(self):
        return E.concretize(self.t)

    def __int__(self):
        return E.concretize(self.t)

    # arithmetic
    def _a(self, o, f, swap=False):
        w = _it(o)
        if w is None:
            w = _rt(o)
            if w is None:
                return NotImplemented
            a = tm.toreal(self.t)
        else:
            a = self.t
        return wrap(f(w, a) if swap else f(a, w))

    def __add__(self, o):
        return self._a(o, tm.add)

    __radd__ = __add__

    def __sub__(self, o):
        return self._a(o, tm.sub)

    def __rsub__(self, o):
        return self._a(o, tm.sub, True)

    def __mul__(self, o):
        return self._a(o, tm.mul)

    __rmul__ = __mul__

    def __neg__(self):
        return wrap(tm.neg(self.t))

    def __pos__(self):
        return self

    def __abs__(self):
        if self < 0:
            return -self
        return self

    def __floordiv__(self, o):
        if isinstance(o, int) and not isinstance(o, bool) and o > 0:
            return wrap(tm.idiv(self.t, o))
        if isinstance(o, SymInt):
            return self // E.concretize(o.t)
        return NotImplemented

    def __mod__(self, o):
        if isinstance(o, int) and not isinstance(o, bool) and o > 0:
            return wrap(tm.imod(self.t, o))
        if isinstance(o, SymInt):
            return self % E.concretize(o.t)
        return NotImplemented

    def __rfloordiv__(self, o):
        return o // E.concretize(self.t)

    def __rmod__(self, o):
        if isinstance(o, str):
            return o % E.concretize(self.t)
        return o % E.concretize(self.t)

    def __truediv__(self, o):
        w = _rt(o)
        if w is None:
            return NotImplemented
        return wrap(tm.rdiv(tm.toreal(self.t), w))

    def __rtruediv__(self, o):
        w = _rt(o)
        if w is None:
            return NotImplemented
        return wrap(tm.rdiv(w, tm.toreal(self.t)))

    def __lshift__(self, n):
        if isinstance(n, SymInt):
            n = E.concretize(n.t)
        return wrap(tm.mul(tm.const(1 << n), self.t))

    def __rshift__(self, n):
        if isinstance(n, SymInt):
            n = E.concretize(n.t)
        return wrap(tm.idiv(self.t, 1 << n))

    def __rlshift__(self, o):
        return o << E.concretize(self.t)

    def __rrshift__(self, o):
        return o >> E.concretize(self.t)

    def __and__(self, o):
        if isinstance(o, bool):
            o = int(o)
        if isinstance(o, int):
            if o >= 0:
                return wrap(tm.band(self.t, o))
            raise tm.Unsupported('& with negative mask')
        w = _it(o)
        if w is None:
            return NotImplemented
        b = tm.pbits(w)
        a = tm.pbits(self.t)
        if a is None or b is None or max(a, b).bit_length() > 24:
            raise tm.Unsupported('symbolic & symbolic without width')
        r = tm.const(0)
        for i in range(min(a, b).bit_length()):
            p, q = tm.imod(tm.idiv(self.t, 1 << i), 2), tm.imod(tm.idiv(w, 1 << i), 2)
            r = tm.add(r, tm.mul(tm.const(1 << i), tm.ite(tm.eq(tm.add(p, q), tm.const(2)), tm.const(1), tm.const(0))))
        return wrap(r)

    __rand__ = __and__

    def __or__(self, o):
        w = _it(o)
        if w is None:
            return NotImplemented
        try:
            return wrap(tm.bor(self.t, w))
        except tm.Unsupported:
            return wrap(tm.bor(self.t, w, width=max(_width(self.t), _width(w))))

    __ror__ = __or__

    def __xor__(self, o):
        w = _it(o)
        if w is None:
            return NotImplemented
        return wrap(tm.bxor(self.t, w))

    __rxor__ = __xor__

    def __invert__(self):
        return wrap(tm.sub(tm.const(-1), self.t))

    def __float__(self):
        return float(E.concretize(self.t))

    def __format__(self, spec):
        return format(E.concretize(self.t), spec)

    def __repr__(self):
        return '<SymInt %s>' % tm.show(self.t, 3)

    def __str__(self):
        return str(E.concretize(self.t))

    def bit_length(self):
        return E.concretize(self.t).bit_length()


class SymReal(object):
    __slots__ = ('t',)

    def __init__(self, t):
        self.t = t

    def _c(self, o, op):
        w = _rt(o)
        if w is None:
            return NotImplemented
        return _cmp(self.t, w, op)

    def __eq__(self, o):
        return self._c(o, 'eq')

    def __ne__(self, o):
        return self._c(o, 'ne')

    def __lt__(self, o):
        return self._c(o, 'lt')

    def __le__(self, o):
        return self._c(o, 'le')

    def __gt__(self, o):
        return self._c(o, 'gt')

    def __ge__(self, o):
        return self._c(o, 'ge')

    __hash__ = None

    def __bool__(self):
        return E.branch(tm.not_(tm.eq(self.t, tm.const(Fraction(0), REAL))))

    def _a(self, o, f, swap=False):
        w = _rt(o)
        if w is None:
            return NotImplemented
        return wrap(f(w, self.t) if swap else f(self.t, w))

    def __add__(self, o):
        return self._a(o, tm.add)

    __radd__ = __add__

    def __sub__(self, o):
        return self._a(o, tm.sub)

    def __rsub__(self, o):
        return self._a(o, tm.sub, True)

    def __mul__(self, o):
        return self._a(o, tm.mul)

    __rmul__ = __mul__

    def __truediv__(self, o):
        return self._a(o, tm.rdiv)

    def __rtruediv__(self, o):
        return self._a(o, tm.rdiv, True)

    def __neg__(self):
        return wrap(tm.neg(self.t))

    def __pos__(self):
        return self

    def __mod__(self, o):
        w = _rt(o)
        if w is None or w.op != 'const' or w.a[0] <= 0:
            return NotImplemented
        k = w.a[0]
        q = tm.toint(tm.mul(tm.const(1 / k, REAL), self.t))
        return wrap(tm.sub(self.t, tm.mul(tm.const(k, REAL), tm.toreal(q))))

    def __floordiv__(self, o):
        w = _rt(o)
        if w is None or w.op != 'const' or w.a[0] <= 0:
            return NotImplemented
        return wrap(tm.toint(tm.mul(tm.const(1 / w.a[0], REAL), self.t)))

    def __int__(self):
        # truncation towards zero of a (non-negative) real, as int(float) does
        v = E.concretize(tm.toint(self.t))
        return v

    def __float__(self):
        raise TypeError('symbolic real cannot be made a float')

    def __repr__(self):
        return '<SymReal %s>' % tm.show(self.t, 3)


def concrete_real(x):
    """Fraction -> nicer python number"""
    if isinstance(x, Fraction) and x.denominator == 1:
        return int(x)
    return x


# ------------------------------------------------------------------------------ bytes

def _byte_ok(v):
    if isinstance(v, (SymInt, SymBool)):
        if isinstance(v, SymBool):
            v = v._int()
        t = v.t
        if t.lo is not None and t.lo >= 0 and t.hi is not None and t.hi <= 255:
            return v
        if not (0 <= v and v < 256):
            raise ValueError('byte must be in range(0, 256)')
        return v
    if isinstance(v, bool):
        return int(v)
    if isinstance(v, int):
        if not 0 <= v < 256:
            raise ValueError('byte must be in range(0, 256)')
        return v
    raise TypeError("'%s' object cannot be interpreted as an integer" % type(v).__name__)


class SymBytes(object):
    """concrete length, symbolic byte contents; plays both bytearray and bytes"""
    __slots__ = ('d',)

    def __init__(self, a=None, encoding=None, errors=None):
        if a is None:
            self.d = []
        elif isinstance(a, SymInt):
            self.d = [0] * E.concretize(a.t)
        elif isinstance(a, bool):
            self.d = [0] * int(a)
        elif isinstance(a, int):
            if a < 0:
                raise ValueError('negative count')
            self.d = [0] * a
        elif isinstance(a, SymStr):
            if encoding is None:
                raise TypeError('string argument without an encoding')
            self.d = a.encode_list(encoding, errors or 'strict')
        elif isinstance(a, str):
            if encoding is None:
                raise TypeError('string argument without an encoding')
            self.d = list(a.encode(encoding, errors or 'strict'))
        elif isinstance(a, (SymBytes, bytes, bytearray)):
            if encoding is not None or errors is not None:
                raise TypeError('encoding without a string argument')
            self.d = list(a.d) if isinstance(a, SymBytes) else list(a)
        elif isinstance(a, (list, tuple)) or hasattr(a, '__iter__'):
            self.d = [_byte_ok(x) for x in a]
        else:
            raise TypeError("cannot convert '%s' object to bytearray" % type(a).__name__)

    @classmethod
    def of(cls, items):
        r = cls.__new__(cls)
        r.d = list(items)
        return r

    def __len__(self):
        return len(self.d)

    def __iter__(self):
        return iter(list(self.d))

    def __bool__(self):
        return bool(self.d)

    def _ix(self, i):
        if isinstance(i, SymInt):
            n = len(self.d)
            # out-of-range first (one fork each), then enumerate inside
            if i >= n or i < -n:
                raise IndexError('bytearray index out of range')
            return E.concretize(i.t)
        if isinstance(i, SymBool):
            return i.__index__()
        return i

    def _sx(self, i, default):
        if i is None:
            return None
        if isinstance(i, SymBool):
            i = i._int()
        if isinstance(i, SymInt):
            n = len(self.d)
            if i >= n:
                return n
            if i <= -n:
                return 0
            return E.concretize(i.t)
        return i

    def __getitem__(self, i):
        if isinstance(i, slice):
            if i.step is not None and i.step != 1:
                raise tm.Unsupported('extended slice of symbolic bytes')
            return SymBytes.of(self.d[slice(self._sx(i.start, 0), self._sx(i.stop, None))])
        try:
            return self.d[self._ix(i)]
        except IndexError:
            raise IndexError('bytearray index out of range')

    def __setitem__(self, i, v):
        if isinstance(i, slice):
            raise tm.Unsupported('slice assignment on symbolic bytes')
        v = _byte_ok(v)
        try:
            self.d[self._ix(i)] = v
        except IndexError:
            raise IndexError('bytearray index out of range')

    def append(self, v):
        self.d.append(_byte_ok(v))

    def extend(self, o):
        if isinstance(o, SymBytes):
            self.d.extend(o.d)
        elif isinstance(o, (bytes, bytearray)):
            self.d.extend(o)
        elif isinstance(o, (str, SymStr)):
            raise TypeError("'str' object cannot be interpreted as an integer")
        else:
            self.d.extend([_byte_ok(x) for x in o])

    def __add__(self, o):
        r = SymBytes.of(self.d)
        r.extend(o)
        return r

    def __iadd__(self, o):
        self.extend(o)
        return self

    def __eq__(self, o):
        if isinstance(o, (bytes, bytearray)):
            o = SymBytes(o)
        if not isinstance(o, SymBytes):
            return NotImplemented
        if len(self.d) != len(o.d):
            return False
        r = tm.TRUE
        for a, b in zip(self.d, o.d):
            r = tm.and_(r, tm.eq(term_of(a), term_of(b)))
        return wrap(r)

    def __ne__(self, o):
        r = self.__eq__(o)
        if r is NotImplemented:
            return r
        if isinstance(r, bool):
            return not r
        return wrap(tm.not_(r.t))

    __hash__ = None

    def decode(self, encoding='utf-8', errors='strict'):
        enc = encoding.lower().replace('_', '-')
        if enc in ('utf-8', 'utf8'):
            return SymStr.from_utf8(self.d, errors)
        if enc in ('utf-8-sig', 'utf8-sig'):
            d = self.d
            if len(d) >= 3 and d[0] == 0xEF and d[1] == 0xBB and d[2] == 0xBF:
                d = d[3:]
            return SymStr.from_utf8(d, errors)
        if enc == 'ascii':
            for x in self.d:
                if not x < 128:
                    raise UnicodeDecodeError('ascii', b'', 0, 1, 'ordinal not in range(128)')
            return SymStr(self.d)
        if enc in ('latin-1', 'latin1', 'iso-8859-1'):
            return SymStr(self.d)
        raise tm.Unsupported('decode(%r) on symbolic bytes' % encoding)

    def copy(self):
        return SymBytes.of(self.d)

    def __repr__(self):
        return '<SymBytes %d>' % len(self.d)


def sym_int(x=0, *a):
    if isinstance(x, SymInt):
        return x
    if isinstance(x, SymBool):
        return x._int()
    if isinstance(x, SymReal):
        return SymInt(tm.toint(x.t))
    return int(x, *a)


class _BAMeta(type):
    def __instancecheck__(cls, o):
        return isinstance(o, (SymBytes, bytearray))

    def __call__(cls, *a, **k):
        return SymBytes(*a, **k)


class ByteArrayShadow(metaclass=_BAMeta):
    """bound to the name `bytearray` in the modules under test"""


class _BYMeta(type):
    def __instancecheck__(cls, o):
        return isinstance(o, bytes)

    def __call__(cls, *a, **k):
        return SymBytes(*a, **k)


class BytesShadow(metaclass=_BYMeta):
    """bound to the name `bytes` in the modules under test"""


class _StrMeta(type):
    def __instancecheck__(cls, o):
        return isinstance(o, (str, SymStr))

    def __call__(cls, *a, **k):
        if len(a) == 1 and not k and isinstance(a[0], SymStr):
            return a[0]
        if len(a) == 1 and not k and isinstance(a[0], SymInt):
            return str(E.concretize(a[0].t))
        return str(*a, **k)


class StrShadow(metaclass=_StrMeta):
    """bound to the name `str` in the modules under test"""


# ------------------------------------------------------------------------------ strings

class SymStr(object):
    """concrete length, symbolic code points"""
    __slots__ = ('cps',)

    def __init__(self, cps):
        if isinstance(cps, str):
            cps = [ord(c) for c in cps]
        self.cps = list(cps)

    def __len__(self):
        return len(self.cps)

    def __iter__(self):
        return iter([SymStr([c]) for c in self.cps])

    def __getitem__(self, i):
        if isinstance(i, slice):
            return SymStr(self.cps[i])
        return SymStr([self.cps[i]])

    def __add__(self, o):
        if isinstance(o, str):
            o = SymStr(o)
        return SymStr(self.cps + o.cps)

    def __radd__(self, o):
        return SymStr(o) + self

    def __eq__(self, o):
        if isinstance(o, str):
            o = SymStr(o)
        if not isinstance(o, SymStr):
            return NotImplemented
        if len(self.cps) != len(o.cps):
            return False
        r = tm.TRUE
        for a, b in zip(self.cps, o.cps):
            r = tm.and_(r, tm.eq(term_of(a), term_of(b)))
        return wrap(r)

    def __ne__(self, o):
        r = self.__eq__(o)
        if r is NotImplemented:
            return r
        if isinstance(r, bool):
            return not r
        return wrap(tm.not_(r.t))

    def __hash__(self):
        # strings are hashable in Python: a string used as a dict key is made concrete (code point by
        # code point, by forking; the enumeration guard applies to wide ranges)
        return hash(''.join(chr(E.concretize(c.t)) if isinstance(c, SymInt) else chr(c) for c in self.cps))

    def encode(self, encoding='utf-8', errors='strict'):
        return SymBytes.of(self.encode_list(encoding, errors))

    def encode_list(self, encoding, errors):
        enc = encoding.lower().replace('_', '-')
        if enc in ('utf-8', 'utf8'):
            out = []
            for c in self.cps:
                # arithmetic form of the UTF-8 bit packing (same values, friendlier terms)
                if c < 0x80:
                    out.append(c)
                elif c < 0x800:
                    out += [0xC0 + c // 64, 0x80 + c % 64]
                elif c < 0x10000:
                    if 0xD800 <= c and c <= 0xDFFF:
                        if errors == 'ignore':
                            continue
                        raise UnicodeEncodeError('utf-8', '', 0, 1, 'surrogates not allowed')
                    out += [0xE0 + c // 4096, 0x80 + (c // 64) % 64, 0x80 + c % 64]
                else:
                    out += [0xF0 + c // 262144, 0x80 + (c // 4096) % 64, 0x80 + (c // 64) % 64, 0x80 + c % 64]
            return out
        if enc == 'ascii':
            out = []
            for c in self.cps:
                if c < 0x80:
                    out.append(c)
                elif errors == 'ignore':
                    continue
                else:
                    raise UnicodeEncodeError('ascii', '', 0, 1, 'ordinal not in range(128)')
            return out
        raise tm.Unsupported('encode(%r) on a symbolic string' % encoding)

    @staticmethod
    def from_utf8(b, errors='strict'):
        """strict UTF-8 decoder with CPython's acceptance rules"""
        def bad():
            raise UnicodeDecodeError('utf-8', b'', 0, 1, 'invalid utf-8')
        n = len(b)

        def cont(i, lo=0x80, hi=0xBF):
            if i >= n:
                bad()
            x = b[i]
            if not (lo <= x and x <= hi):
                bad()
            return x - 0x80
        cps = []
        i = 0
        while i < n:
            x = b[i]
            if x < 0x80:
                cps.append(x)
                i += 1
            elif x < 0xC2:
                bad()
            elif x < 0xE0:
                cps.append((x - 0xC0) * 64 + cont(i + 1))
                i += 2
            elif x < 0xF0:
                # E0: A0..BF ; ED: 80..9F ; others 80..BF
                if x == 0xE0:
                    c1 = cont(i + 1, 0xA0, 0xBF)
                elif x == 0xED:
                    c1 = cont(i + 1, 0x80, 0x9F)
                else:
                    c1 = cont(i + 1)
                cps.append((x - 0xE0) * 4096 + c1 * 64 + cont(i + 2))
                i += 3
            elif x < 0xF5:
                if x == 0xF0:
                    c1 = cont(i + 1, 0x90, 0xBF)
                elif x == 0xF4:
                    c1 = cont(i + 1, 0x80, 0x8F)
                else:
                    c1 = cont(i + 1)
                cps.append((x - 0xF0) * 262144 + c1 * 4096 + cont(i + 2) * 64 + cont(i + 3))
                i += 4
            else:
                bad()
        return SymStr(cps)

    def __repr__(self):
        return '<SymStr %d>' % len(self.cps)

    def __str__(self):
        return ''.join(chr(E.concretize(c.t)) if isinstance(c, SymInt) else chr(c) for c in self.cps)

    def __format__(self, spec):
        return format(str(self), spec)


# ------------------------------------------------------------------------------ dict

class _DictView(object):
    """iteration over a SymDict that, like a native dict, refuses to go on after the size changed"""

    def __init__(self, d, what):
        self.d = d
        self.what = what

    def __iter__(self):
        d = self.d
        n = len(d.kv)
        snap = list(d.kv)
        for (k, v) in snap:
            if len(d.kv) != n:
                raise RuntimeError('dictionary changed size during iteration')
            yield k if self.what == 'k' else v if self.what == 'v' else (k, v)
        if len(d.kv) != n:
            raise RuntimeError('dictionary changed size during iteration')

    def __len__(self):
        return len(self.d.kv)

    def __contains__(self, x):
        return x in list(iter(self))


class SymDict(object):
    """insertion-ordered association list; keys compared with == (forks on symbolic keys)"""

    def __init__(self, *a):
        self.kv = []
        if a:
            for k, v in dict(*a).items():
                self[k] = v

    def _find(self, k):
        for i, (kk, _) in enumerate(self.kv):
            c = (kk == k)
            if c is NotImplemented:
                c = False
            if c:
                return i
        return -1

    def __getitem__(self, k):
        i = self._find(k)
        if i < 0:
            raise KeyError(k)
        return self.kv[i][1]

    def __setitem__(self, k, v):
        i = self._find(k)
        if i < 0:
            self.kv.append((k, v))
        else:
            self.kv[i] = (self.kv[i][0], v)

    def __delitem__(self, k):
        i = self._find(k)
        if i < 0:
            raise KeyError(k)
        del self.kv[i]

    def __contains__(self, k):
        return self._find(k) >= 0

    def __len__(self):
        return len(self.kv)

    def __bool__(self):
        return bool(self.kv)

    def __iter__(self):
        return iter(_DictView(self, 'k'))

    def keys(self):
        return _DictView(self, 'k')

    def values(self):
        return _DictView(self, 'v')

    def items(self):
        return _DictView(self, 'i')

    def get(self, k, d=None):
        i = self._find(k)
        return d if i < 0 else self.kv[i][1]

    def pop(self, k, *d):
        i = self._find(k)
        if i < 0:
            if d:
                return d[0]
            raise KeyError(k)
        v = self.kv[i][1]
        del self.kv[i]
        return v

    def setdefault(self, k, d=None):
        i = self._find(k)
        if i < 0:
            self.kv.append((k, d))
            return d
        return self.kv[i][1]

    def clear(self):
        self.kv = []

    def copy(self):
        r = SymDict()
        r.kv = list(self.kv)
        return r

    def popitem(self):
        if not self.kv:
            raise KeyError('popitem(): dictionary is empty')
        return self.kv.pop()

    def update(self, *a, **k):
        for kk, v in dict(*a, **k).items():
            self[kk] = v

    def __repr__(self):
        return '<SymDict %d>' % len(self.kv)
