#!/usr/bin/env python3
"""seeded/README.md: table of seeded changes and which check catches which (from meta.json + RESULTS.txt)"""
import json, os, re
root = '/verif/seeded'
res = {}
if os.path.exists(root + '/RESULTS.txt'):
    for l in open(root + '/RESULTS.txt'):
        m = re.match(r'(\S+) check=(\S+) exit=(\d+) violations=(\d+) patch=(\S+)', l)
        if m:
            res.setdefault(m.group(1), []).append((m.group(2), int(m.group(3)), int(m.group(4)), m.group(5)))
rows = []
for d in sorted(os.listdir(root)):
    mp = os.path.join(root, d, 'meta.json')
    if not os.path.exists(mp):
        continue
    m = json.load(open(mp))
    r = res.get(d, [])
    last = '; '.join('%s exit %d (%d VIOLATION lines)' % (c, rc, nv) for (c, rc, nv, how) in r) or 'not re-run'
    rows.append('| %s | %s | %s | %s | %s | %s |' % (d, m['breaks_property'], m['what'].replace('|', '/'), m['needs_to_manifest'].replace('|', '/'),
                                                   ', '.join(m['caught_by']), ('missed at first; check strengthened. ' if m.get('missed_at_first') else '') + last))
open(root + '/README.md', 'w').write('''# Seeded changes

Each directory holds a change to astrorafael/twisted-mqtt written by a sub-agent that was given **only the text of one
property** and a scratch worktree of /repo: `patch.diff` (applies to the repaired HEAD), `demo.py` (passes without the
patch, fails with it), `notes.md` (the agent's description) and `meta.json`. Every change keeps the 85 baseline tests
green. None of them is ever committed to /repo; `tools/seedrun.sh <patch> <checks>` applies one to a scratch worktree, runs
the checks against it through `VERIF_REPO_SRC`, and removes the worktree. `tools/seedsweep.sh` does that for all of them
and writes `RESULTS.txt`.

"missed at first" marks changes the quick tier of the target property did not report when the change arrived; the
checks were then strengthened (DESIGN.md section 12) until they did.

| id | property | change | needs | caught by | last sweep |
|---|---|---|---|---|---|
''' + '\n'.join(rows) + '\n')
print(len(rows), 'rows')
