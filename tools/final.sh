#!/bin/sh
# run every quick check in /verif (rewrites evidence), regenerate MANIFEST and validate both against the schemas
cd /verif
for i in 01 02 03 04 05 06 07 08 09 10 11 12 13 14 15 16 17 18 19 20; do
  VERIF_SEED=${VERIF_SEED:-0} ./bin/vcheck C$i --tier quick 2>&1 | tail -1
done
python3 tools/manifest.py
python3-vt - <<'PY'
import json, jsonschema
jsonschema.validate(json.load(open('/verif/MANIFEST.json')), json.load(open('/root/.vp/MANIFEST.schema.json')))
for i in range(1, 21):
    p = 'C%02d' % i
    jsonschema.validate(json.load(open('/verif/evidence/%s.json' % p)), json.load(open('/root/.vp/EVIDENCE.schema.json')))
print('manifest and 20 evidence files valid')
PY
