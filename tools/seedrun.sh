#!/bin/sh
# tools/seedrun.sh <patch.diff> <PROP> [<PROP> ...]
# applies the patch to a scratch worktree of /repo (outside /repo and /verif), runs the quick checks against it, removes it
P="$1"; shift
N="seed$$"
D=$(/verif/tools/mkworktree.sh $N) || exit 9
if ! git -C "$D" apply "$P"; then echo "patch does not apply"; git -C /repo worktree remove --force "$D"; exit 9; fi
for prop in "$@"; do
  out=$(cd /verif && VERIF_REPO_SRC="$D/src" timeout 3000 ./bin/vcheck "$prop" --no-evidence ${TIER:+--tier $TIER} 2>&1)
  rc=$?
  echo "== $prop exit=$rc"
  echo "$out" | grep -E "^VIOLATION|^  [a-z0-9A-Z.-]+: |HARNESS-ERROR|INCONCLUSIVE|^C[0-9]+ " | cut -c1-260 | head -8
done
git -C /repo worktree remove --force "$D"
