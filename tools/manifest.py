#!/usr/bin/env python3
"""regenerate MANIFEST.json from the property modules present under harness/props"""
import json, os, re, sys
HERE = os.path.dirname(os.path.dirname(os.path.abspath(__file__)))
sys.path.insert(0, HERE)
props = [json.loads(l) for l in open(os.path.join(HERE, 'properties.jsonl'))]
NA = {}
na_file = os.path.join(HERE, 'tools', 'not_applicable.json')
if os.path.exists(na_file):
    NA = json.load(open(na_file))
checks = []
na = []
served = []
for p in props:
    pid = p['id']
    mod = os.path.join(HERE, 'harness', 'props', pid.lower() + '.py')
    if not os.path.exists(mod) or pid in NA:
        na.append({'property_id': pid, 'reason': NA.get(pid, 'check under construction; will be claimed as soon as its harness is committed')})
        continue
    src = open(mod).read()
    m = re.search(r"^LEVEL_TEXT = (.+?)^\)", src, re.S | re.M)
    ns = {}
    exec(compile(re.search(r"^MANIFEST = \{.*?^\}", src, re.S | re.M).group(0), mod, 'exec'), ns)
    info = ns['MANIFEST']
    served.append(pid)
    checks.append({
        'property_id': pid,
        'quick_cmd': './bin/vcheck %s --tier quick' % pid,
        'thorough_cmd': './bin/vcheck %s --tier thorough' % pid,
        'evidence_file': 'evidence/%s.json' % pid,
        'replay_cmd_template': './bin/vcheck --replay {path}',
        'engine': 'symex',
        'level_claimed': {'category': 'model_checking', 'text': info['text'], 'design_ref': info['design_ref']},
        'level_note': info['note'],
        'technique': info.get('technique', 'bounded symbolic execution of the real Python code on proxy values; every obligation decided by z3 (SMT) over all values of the path; counterexamples replayed concretely'),
    })
man = {
    'version': 1,
    'setup_cmd': './bin/bootstrap',
    'hooks': {
        'guard': 'TWISTED_MQTT_VERIF',
        'enable': 'no source hooks are needed: the checks bind proxy types to module-level names of mqtt.* at run time and import /repo/src as it is',
        'baseline_off_cmd': 'cd /repo && /venv/bin/python -m pytest -ra -q -p no:cacheprovider --timeout=900 --continue-on-collection-errors',
        'source_commits': [],
        'add_only': True,
    },
    'engines': [{'name': 'symex', 'path': 'symex/', 'serves_properties': served,
                 'kind_free_text': 'proxy-value symbolic executor of the real Python code over z3 (hash-consed term layer, decision tree, depth-first re-execution, concrete replay of every counterexample)'}],
    'checks': checks,
    'not_applicable': na,
    'notes': 'exit codes of ./bin/vcheck: 0 holds within bounds, 1 violation (VIOLATION line + replay file), 2 inconclusive, 3 harness error. Known findings: known_findings.json.',
}
json.dump(man, open(os.path.join(HERE, 'MANIFEST.json'), 'w'), indent=1)
print('checks:', served, 'not applicable:', [x['property_id'] for x in na])
