#!/bin/sh
# tools/seedall.sh "<dir> <X> <PROP> [<PROP>...]" ...   confirm + run
for spec in "$@"; do
  set -- $spec
  d=$1; x=$2; shift 2
  echo "######## $d $x -> $*"
  /verif/tools/seedcheck.sh /tmp/wt/$d/out $x 2>&1 | grep "demo\|passed"
  /verif/tools/seedrun.sh /tmp/wt/$d/out/patch$x.diff "$@" 2>&1 | grep "exit=\|^VIOLATION\|HARNESS\|INCONCL" | cut -c1-220 | head -6
done
