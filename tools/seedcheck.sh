#!/bin/sh
# tools/seedcheck.sh <dir with patchX.diff demoX.py> <X>   -- confirm a seeded change: tests pass with it, demo fails with it and passes without
D="$1"; X="$2"
N="chk$$"
W=$(/verif/tools/mkworktree.sh $N) || exit 9
cd "$W"
PYTHONPATH="$W/src" /venv/bin/python "$D/demo$X.py" >/dev/null 2>&1; echo "demo without patch: exit $?"
git apply "$D/patch$X.diff" || { echo "patch does not apply"; cd /; git -C /repo worktree remove --force "$W"; exit 9; }
PYTHONPATH="$W/src" /venv/bin/python "$D/demo$X.py" >/dev/null 2>&1; echo "demo with patch: exit $?"
PYTHONPATH="$W/src" /venv/bin/python -m pytest -q -p no:cacheprovider --timeout=900 2>&1 | tail -1
cd /; git -C /repo worktree remove --force "$W"
