#!/bin/sh
for spec in "$@"; do
  set -- $spec
  d=$1; x=$2; shift 2
  echo "######## $d $x -> $*"
  /verif/tools/seedcheck.sh /tmp/wt/$d/out $x 2>&1 | grep "demo\|passed" | tr '\n' ' '; echo
  /verif/tools/seedrun.sh /tmp/wt/$d/out/patch$x.diff "$@" 2>&1 | grep "exit=\|^VIOLATION\|^  [a-zA-Z-]*:\|HARNESS\|INCONCL" | cut -c1-260 | head -5
done
