#!/bin/sh
# scratch worktree of /repo (outside /repo and /verif) for mutation experiments: tools/mkworktree.sh <name>
set -e
D=/tmp/wt/$1
mkdir -p /tmp/wt
git -C /repo worktree add -q --detach "$D" HEAD
cp /repo/src/mqtt/_version.py "$D/src/mqtt/_version.py"
echo "$D"
