#!/bin/sh
# tools/seedsweep.sh [ids...]: for every seeded change, apply it to a scratch worktree of /repo's HEAD and run the checks that
# are recorded as catching it; writes seeded/RESULTS.txt (one line per seed and check)
cd /verif
OUT=/verif/seeded/RESULTS.txt
[ $# -eq 0 ] && : > $OUT
for d in ${@:-$(ls seeded | grep '^C')}; do
  [ -f seeded/$d/patch.diff ] || continue
  checks=$(python3 -c "import json;print(' '.join(json.load(open('seeded/$d/meta.json'))['caught_by'][:1]))")
  W=$(/verif/tools/mkworktree.sh sweep$$ 2>/dev/null) || { echo "$d worktree failed" >> $OUT; continue; }
  if git -C $W apply /verif/seeded/$d/patch.diff 2>/dev/null; then how=apply; elif git -C $W apply --3way /verif/seeded/$d/patch.diff 2>/dev/null; then how=3way; else how=FAILED; fi
  if [ $how = FAILED ]; then echo "$d patch does not apply to HEAD" >> $OUT; git -C /repo worktree remove --force $W; continue; fi
  t=$(cd $W && PYTHONPATH=$W/src /venv/bin/python -m pytest -q -p no:cacheprovider --timeout=900 2>&1 | tail -1)
  demo=$(cd $W && PYTHONPATH=$W/src /venv/bin/python /verif/seeded/$d/demo.py >/dev/null 2>&1; echo $?)
  for c in $checks; do
    o=$(VERIF_REPO_SRC=$W/src VERIF_JOBS=${JOBS:-8} timeout 3000 ./bin/vcheck $c --no-evidence 2>&1); rc=$?
    nv=$(echo "$o" | grep -c "^VIOLATION")
    echo "$d check=$c exit=$rc violations=$nv patch=$how tests='$t' demo_exit_with_patch=$demo" >> $OUT
  done
  git -C /repo worktree remove --force $W
done
