#!/usr/bin/env python3
"""regenerate the 'bounds as run' appendix of DESIGN.md from the META of every property module"""
import sys, os, re, importlib
HERE = os.path.dirname(os.path.dirname(os.path.abspath(__file__)))
sys.path.insert(0, HERE)
out = []
for i in range(1, 21):
    pid = 'C%02d' % i
    m = importlib.import_module('harness.props.c%02d' % i)
    b = m.META.get('bounds', {})
    q = b.get('quick', b) if isinstance(b, dict) else b
    t = b.get('thorough', '') if isinstance(b, dict) else ''
    nq, nt = len(list(m.shards('quick'))), len(list(m.shards('thorough')))
    out.append('* **%s** (%d / %d shards). Quick: %s. Thorough: %s.\n  Outside: %s.' % (pid, nq, nt, q, t, '; '.join(m.META.get('outside', []))))
text = '\n'.join(out)
p = os.path.join(HERE, 'DESIGN.md')
s = open(p).read()
a, b = '<!-- BOUNDS-BEGIN -->', '<!-- BOUNDS-END -->'
if a in s:
    s = s[:s.index(a) + len(a)] + '\n' + text + '\n' + s[s.index(b):]
else:
    s = s.replace('---------------------------------------------------------------------------------\n\n## 8. Genuine defects',
                  '### 7.1 Bounds as run (generated from the property modules by tools/designbounds.py)\n\n' + a + '\n' + text + '\n' + b +
                  '\n\n---------------------------------------------------------------------------------\n\n## 8. Genuine defects')
open(p, 'w').write(s)
print('ok')
