#!/bin/sh
# run every thorough check once, sequentially; prints one summary line per property
for p in C14 C20 C03 C17 C04 C08 C11 C10 C06 C01 C02 C05 C09 C07 C18 C13 C15 C16 C12 C19; do
  s=$(date +%s)
  out=$(./bin/vcheck $p --tier thorough --jobs ${JOBS:-8} 2>&1)
  rc=$?
  e=$(date +%s)
  echo "$p rc=$rc wall=$((e-s))s :: $(echo "$out" | grep "^$p " | tail -1)"
  echo "$out" | grep -E "^VIOLATION|HARNESS-ERROR|INCONCLUSIVE" | cut -c1-300 | head -5
done
