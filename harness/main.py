"""vcheck: run the solver-based check of one property.

  python -m harness.main C07 --tier quick|thorough [--jobs N]
  python -m harness.main --replay replays/C07-xxxx.json

exit 0  every path explored, every obligation unsat (or only listed known findings)
exit 1  + "VIOLATION property=<id> replay=<path>"   replayed counterexample
exit 2  inconclusive (budget, solver unknown, enumeration guard)
exit 3  harness error (vacuity, cross-replay mismatch, non-reproducing model)
"""
import argparse
import hashlib
import importlib
import json
import os
import random
import re
import sys
import time
import traceback
from fractions import Fraction

HERE = os.path.dirname(os.path.dirname(os.path.abspath(__file__)))
if HERE not in sys.path:
    sys.path.insert(0, HERE)

EVID = os.path.join(HERE, 'evidence')
REPLAYS = os.path.join(HERE, 'replays')
KNOWN = os.path.join(HERE, 'known_findings.json')


def _enc(v):
    if isinstance(v, Fraction):
        return '%d/%d' % (v.numerator, v.denominator)
    if isinstance(v, (bool, int, str)) or v is None:
        return v
    if isinstance(v, float):
        return v
    return repr(v)


def load_prop(pid):
    return importlib.import_module('harness.props.%s' % pid.lower())


# ------------------------------------------------------------------------------ worker side

_funcs = set()


def _start_function_trace():
    try:
        mon = sys.monitoring
    except AttributeError:
        return
    from symex import env
    root = os.path.realpath(env.REPO_SRC)
    tool = 3
    try:
        mon.use_tool_id(tool, 'vcheck')
    except ValueError:
        return

    def on_start(code, off):
        fn = code.co_filename
        if fn.startswith(root):
            _funcs.add('%s:%s' % (os.path.relpath(fn, root), code.co_qualname))
        return mon.DISABLE
    mon.register_callback(tool, mon.events.PY_START, on_start)
    mon.set_events(tool, mon.events.PY_START)


def concrete_run(prop, hname, params, inputs, choices):
    """run harness on native values; returns (failures, trace, engine)"""
    from symex import env
    from symex.engine import PathAbort
    ce = env.ConcreteEngine(inputs, choices)
    fn = prop.HARNESSES[hname]
    trace = None
    try:
        trace = fn(ce, params)
    except PathAbort:
        pass
    finally:
        env.uninstall()
    return ce.failures, trace, ce


def _concretize_obj(o, eng):
    """value of a (possibly symbolic) observation under the engine's current model"""
    from symex import proxies as px
    if isinstance(o, (px.SymInt, px.SymBool, px.SymReal)):
        return eng.ev(o.t)
    if isinstance(o, px.SymBytes):
        return bytes(_concretize_obj(x, eng) for x in o.d)
    if isinstance(o, px.SymStr):
        return ''.join(chr(_concretize_obj(c, eng)) for c in o.cps)
    if isinstance(o, (list, tuple)):
        return [_concretize_obj(x, eng) for x in o]
    if isinstance(o, dict):
        return dict((k, _concretize_obj(v, eng)) for k, v in o.items())
    if isinstance(o, (bytes, bytearray)):
        return bytes(o)
    return o


def _same_obs(a, b):
    if isinstance(a, (list, tuple)) and isinstance(b, (list, tuple)):
        return len(a) == len(b) and all(_same_obs(x, y) for x, y in zip(a, b))
    if isinstance(a, dict) and isinstance(b, dict):
        return a.keys() == b.keys() and all(_same_obs(a[k], b[k]) for k in a)
    if isinstance(a, bool) or isinstance(b, bool):
        return bool(a) == bool(b)
    if isinstance(a, (int, float, Fraction)) and isinstance(b, (int, float, Fraction)):
        if isinstance(a, float) or isinstance(b, float):
            return abs(float(a) - float(b)) <= 1e-6 * max(1.0, abs(float(a)))
        return a == b
    if isinstance(a, (bytes, bytearray)) and isinstance(b, (bytes, bytearray)):
        return bytes(a) == bytes(b)
    return a == b


def _is_event_log(t):
    return isinstance(t, (list, tuple)) and t and all(
        isinstance(e, (list, tuple)) and len(e) == 5 and isinstance(e[0], str) and isinstance(e[3], (int, float, Fraction)) for e in t)


def _same_trace(a, b):
    """observation logs agree; events of one step at (numerically) the same instant may come in either
    order: exact ties of timer due times in the symbolic run are not ties in float arithmetic"""
    if _same_obs(a, b):
        return True
    if not (_is_event_log(a) and _is_event_log(b)) or len(a) != len(b):
        return False

    def key(e):
        return (e[2], round(float(e[3]), 6), e[0], e[1], repr(_norm(e[4])))

    def _norm(x):
        if isinstance(x, (list, tuple)):
            return [_norm(y) for y in x]
        if isinstance(x, (bytes, bytearray)):
            return bytes(x)
        if isinstance(x, Fraction):
            return round(float(x), 6)
        if isinstance(x, float):
            return round(x, 6)
        if isinstance(x, bool):
            return int(x)
        return x
    return sorted(key(e) for e in a) == sorted(key(e) for e in b)


def run_shard(job):
    pid, hname, params, opts = job
    import faulthandler
    from symex import env, engine
    prop = load_prop(pid)
    fn = prop.HARNESSES[hname]
    t0 = time.time()
    eng = engine.Engine(max_paths=opts['max_paths'], max_seconds=opts['max_seconds'])
    eng.second_every = opts.get('second_every', 0)
    eng.nontrivial_keys = set(getattr(prop, 'NONTRIVIAL', {}).get('quick', []))
    state = {'trace': None, 'xre': 0, 'xre_bad': [], 'samples': []}
    every = opts.get('xreplay_every', 0)
    offset = opts.get('seed', 0)

    def h(e):
        faulthandler.cancel_dump_traceback_later()
        faulthandler.dump_traceback_later(opts.get('path_timeout', 300), exit=True)
        state['trace'] = None
        state['trace'] = fn(e, params)

    def on_end(e):
        n = e.paths
        if state['trace'] is not None and (len(state['samples']) < 2 or len(e.inputs) > state['samples'][-1]['ninputs']) and n < 400:
            state['samples'].append({'harness': hname, 'params': params, 'choices': list(e.choices),
                                     'inputs': [(k, _enc(v)) for k, v in e.current_inputs()],
                                     'notes': list(e.path_notes), 'ninputs': len(e.inputs)})
            state['samples'].sort(key=lambda x: x['ninputs'])
            del state['samples'][:-2]
        if every and state['trace'] is not None and ((n + offset) % every == 0 or n == 1) and not e.path_violated:
            mm = e.margin_model()
            if mm is not None:
                e._set_model(mm)
            elif e.margin_terms():
                state['ties'] = state.get('ties', 0) + 1
                return      # the path exists only at an exact tie of two instants: not comparable in floats
            inputs = e.current_inputs()
            sym_obs = _concretize_obj(state['trace'], e)
            try:
                fails, ctrace, ce = concrete_run(prop, hname, params, inputs, e.choices)
            except Exception:
                state['xre_bad'].append({'why': 'exception in concrete run', 'tb': traceback.format_exc(),
                                         'inputs': [(k, _enc(v)) for k, v in inputs], 'choices': list(e.choices)})
                return
            state['xre'] += 1
            if fails:
                state['xre_bad'].append({'harness': hname, 'params': params, 'why': 'concrete run fails a check the solver discharged: %r' % (fails[:2],),
                                         'inputs': [(k, _enc(v)) for k, v in inputs], 'choices': list(e.choices)})
            elif not _same_trace(sym_obs, ctrace):
                state['xre_bad'].append({'harness': hname, 'params': params, 'why': 'observation logs differ', 'sym': repr(sym_obs)[:2000], 'conc': repr(ctrace)[:2000],
                                         'inputs': [(k, _enc(v)) for k, v in inputs], 'choices': list(e.choices)})

    # path_violated: set when a violation was recorded on the current path
    orig_violate = eng._violate
    orig_begin = eng._begin

    def _violate(*a, **k):
        eng.path_violated = True
        return orig_violate(*a, **k)

    def _begin():
        eng.path_violated = False
        orig_begin()
    eng._violate = _violate
    eng._begin = _begin
    eng.on_path_end = on_end
    try:
        eng.explore(h)
    finally:
        faulthandler.cancel_dump_traceback_later()
        env.uninstall()
    viols = []
    for v in eng.violations.values():
        rec = {'label': v.label, 'detail': v.detail, 'sig': v.sig, 'count': v.count, 'harness': hname, 'params': params,
               'inputs': [(k, _enc(x)) for k, x in v.inputs], 'choices': v.choices}
        try:
            fails, _, _ = concrete_run(prop, hname, params, v.inputs, v.choices)
            rec['reproduced'] = any(f[2] == v.sig for f in fails)
            rec['concrete_failures'] = [list(f) for f in fails[:5]]
        except Exception:
            rec['reproduced'] = False
            rec['concrete_failures'] = [['exception', traceback.format_exc()[-1500:], '']]
        viols.append(rec)
    return {
        'harness': hname, 'params': params, 'paths': eng.paths, 'decisions': eng.decisions, 'queries': eng.queries,
        'solver_s': eng.solver_s, 'obligations': eng.obligations, 'discharged': eng.discharged,
        'violations': viols, 'inconclusive': eng.inconclusive, 'error': eng.error, 'counters': eng.counters,
        'monitors': eng.monitor_stats, 'samples': state['samples'], 'xreplays': state['xre'], 'xreplay_bad': state['xre_bad'][:3],
        'functions': sorted(_funcs), 'wall': time.time() - t0, 'nvars': eng.nvars, 'ties': state.get('ties', 0), 'second': eng.second, 'nontrivial_paths': eng.nontrivial_paths,
    }


def _init_worker():
    _start_function_trace()


# ------------------------------------------------------------------------------ driver side

def load_known():
    if not os.path.exists(KNOWN):
        return {'findings': [], 'fixed': []}
    return json.load(open(KNOWN))


def main(argv=None):
    ap = argparse.ArgumentParser()
    ap.add_argument('prop', nargs='?')
    ap.add_argument('--tier', default=os.environ.get('VERIF_TIER', 'quick'))
    ap.add_argument('--jobs', type=int, default=int(os.environ.get('VERIF_JOBS', '0')) or os.cpu_count() or 4)
    ap.add_argument('--replay')
    ap.add_argument('--only', help='run only harnesses whose name matches this regex')
    ap.add_argument('--no-evidence', action='store_true')
    ap.add_argument('--params', help='run only shards whose params repr matches this regex')
    args = ap.parse_args(argv)
    if args.replay:
        return replay(args.replay)
    pid = args.prop.upper()
    tier = 'thorough' if args.tier.startswith('t') else 'quick'
    seed = int(os.environ.get('VERIF_SEED', '0') or 0)
    prop = load_prop(pid)
    t0 = time.time()
    shards = list(prop.shards(tier))
    if args.only:
        shards = [s for s in shards if re.search(args.only, s[0])]
    if args.params:
        shards = [s for s in shards if re.search(args.params, repr(s[1]))]
        args.only = args.only or '.'
    rnd = random.Random(seed)
    rnd.shuffle(shards)
    budget = prop.BUDGET[tier]
    jobs = []
    for (hname, params) in shards:
        opts = {'max_paths': budget.get('max_paths', 10 ** 7), 'max_seconds': budget['seconds'],
                'xreplay_every': budget.get('xreplay_every', 50), 'seed': seed,
                'path_timeout': budget.get('path_timeout', 300),
                'second_every': int(os.environ.get('VERIF_SECOND_SOLVER', budget.get('second_every', 20 if tier == 'thorough' else 50)))}
        jobs.append((pid, hname, params, opts))
    results = []
    broken = None
    from concurrent.futures import ProcessPoolExecutor, as_completed
    import multiprocessing
    ctx = multiprocessing.get_context('fork')
    with ProcessPoolExecutor(max_workers=min(args.jobs, max(1, len(jobs))), mp_context=ctx, initializer=_init_worker) as ex:
        futs = [ex.submit(run_shard, j) for j in jobs]
        try:
            for f in as_completed(futs):
                results.append(f.result())
        except Exception as e:  # BrokenProcessPool: a worker was killed by the watchdog
            broken = 'worker died: %r' % (e,)
    wall = time.time() - t0
    return report(pid, tier, seed, prop, results, broken, wall, len(jobs), args)


def report(pid, tier, seed, prop, results, broken, wall, njobs, args):
    known = load_known()
    status = 0
    msgs = []
    paths = sum(r['paths'] for r in results)
    decisions = sum(r['decisions'] for r in results)
    queries = sum(r['queries'] for r in results)
    solver_s = sum(r['solver_s'] for r in results)
    obligations = sum(r['obligations'] for r in results)
    discharged = sum(r['discharged'] for r in results)
    xre = sum(r['xreplays'] for r in results)
    counters = {}
    monitors = {}
    functions = set()
    samples = []
    for r in results:
        for k, v in r['counters'].items():
            counters[k] = counters.get(k, 0) + v
        for k, v in r['monitors'].items():
            m = monitors.setdefault(k, [0, 0])
            m[0] += v[0]
            m[1] += v[1]
        functions.update(r['functions'])
        samples.extend(r['samples'][-1:])
    samples.sort(key=lambda x: -x.get('ninputs', 0))
    samples = samples[:4]
    inconclusive = [('%s %s' % (r['harness'], r['params']), r['inconclusive']) for r in results if r['inconclusive']]
    errors = [('%s %s' % (r['harness'], r['params']), r['error']) for r in results if r['error']]
    if broken:
        inconclusive.append(('pool', broken))
    if len(results) != njobs and not broken:
        inconclusive.append(('pool', 'missing shard results'))
    xbad = [b for r in results for b in r['xreplay_bad']]
    second = {'checked': 0, 'agree': 0, 'disagree': 0, 'undecided': 0, 'solvers': []}
    for r in results:
        for k in ('checked', 'agree', 'disagree', 'undecided'):
            second[k] += r.get('second', {}).get(k, 0)
        for sname in r.get('second', {}).get('solvers', []):
            if sname not in second['solvers']:
                second['solvers'].append(sname)
        for fpath in r.get('second', {}).get('files', []):
            xbad.append({'why': 'a second solver says sat for an obligation z3 discharged', 'smt2': fpath})

    # violations
    seen = {}
    for r in results:
        for v in r['violations']:
            seen.setdefault(v['sig'], v)
    unlisted, listed, bogus = [], [], []
    for sig, v in sorted(seen.items()):
        if not v['reproduced']:
            bogus.append(v)
            continue
        k = None
        for f in known.get('findings', []):
            if f['property'] == pid and re.fullmatch(f['sig'], sig):
                k = f
                break
        if k is not None:
            listed.append((k, v))
        else:
            unlisted.append(v)
    printed = set()
    for k, v in listed:
        if k['sig'] not in printed:
            printed.add(k['sig'])
            print('KNOWN-FINDING: property=%s %s' % (pid, k['what']))
    os.makedirs(REPLAYS, exist_ok=True)
    for v in unlisted:
        body = {'property': pid, 'harness': v['harness'], 'params': v['params'], 'inputs': v['inputs'], 'choices': v['choices'],
                'label': v['label'], 'sig': v['sig'], 'detail': v['detail']}
        dig = hashlib.sha1(json.dumps(body, sort_keys=True).encode()).hexdigest()[:10]
        path = os.path.join(REPLAYS, '%s-%s.json' % (pid, dig))
        with open(path, 'w') as f:
            json.dump(body, f, indent=1)
        print('VIOLATION property=%s replay=%s' % (pid, path))
        print('  %s: %s  [%s %s]' % (v['label'], v['detail'], v['harness'], v['params']))
        status = 1
    # vacuity
    vac = []
    for c in getattr(prop, 'NONTRIVIAL', {}).get(tier, getattr(prop, 'NONTRIVIAL', {}).get('quick', [])):
        if counters.get(c, 0) == 0:
            vac.append(c)
    if args.only:
        vac = []
    if status == 0:
        if errors or bogus or xbad or vac:
            status = 3
        elif inconclusive:
            status = 2
    if os.environ.get('VERIF_DEBUG'):
        for r in sorted(results, key=lambda r: -r['wall'])[:12]:
            print('  shard %-12s %6.1fs paths=%-7d queries=%-7d %s' % (r['harness'], r['wall'], r['paths'], r['queries'], r['params']))
    for n, e in errors:
        print('HARNESS-ERROR %s\n%s' % (n, e))
    for v in bogus:
        print('HARNESS-ERROR counterexample did not reproduce concretely: %s %s %s concrete=%s inputs=%s choices=%s' % (
            v['label'], v['harness'], v['params'], v['concrete_failures'], v['inputs'], v['choices']))
    for b in xbad[:5]:
        print('HARNESS-ERROR cross-replay: %s' % json.dumps(b)[:3000])
    for c in vac:
        print('HARNESS-ERROR vacuous: counter %s never triggered' % c)
    for n, e in inconclusive:
        print('INCONCLUSIVE %s: %s' % (n, e))
    nontriv = sum(r.get('nontrivial_paths', 0) for r in results)
    meta = prop.META
    ev = {
        'property_id': pid, 'tier': tier, 'seed': seed, 'level': 'model_checking',
        'coverage': {
            'states': paths, 'transitions': decisions, 'traces_validated_against_impl': xre,
            'samples': samples or [{'note': 'no sample recorded'}],
            'evaluations': paths, 'distinct_nontrivial': nontriv,
            'rule': meta.get('rule', '') + ' | distinct_nontrivial = number of explored paths (each a distinct branch class) on which at least one of the listed non-trivial situations occurred: ' + ', '.join(getattr(prop, 'NONTRIVIAL', {}).get('quick', [])),
            'exhaustive': bool(status == 0 and not inconclusive),
            'explanation': 'bounded symbolic execution of the real code: every feasible path of the harnesses within the stated bounds was explored and each obligation decided by z3 (unsat = holds for every value on the path)',
            'functions_executed': sorted(functions),
            'bounds': meta.get('bounds', {}).get(tier, meta.get('bounds')),
            'shards': njobs,
            'solver_queries': queries, 'solver_seconds': round(solver_s, 2),
            'obligations': obligations, 'discharged': discharged,
            'monitors': dict((k, {'obligations': v[0], 'discharged': v[1]}) for k, v in sorted(monitors.items())),
            'counters': counters,
            'stubs': meta.get('stubs', []),
            'outside_claim': meta.get('outside', []),
            'known_findings_reproduced': [k['what'] for k, _ in listed],
            'second_solver': second,
            'cross_replay_paths_skipped_as_exact_ties': sum(r.get('ties', 0) for r in results),
            'status': {0: 'holds within bounds', 1: 'violation', 2: 'inconclusive', 3: 'harness error'}[status],
        },
        'assumptions': meta.get('assumptions', []),
        'wall_s': round(wall, 2),
        'violations': len(unlisted),
    }
    if not args.no_evidence and not args.only:
        os.makedirs(EVID, exist_ok=True)
        with open(os.path.join(EVID, '%s.json' % pid), 'w') as f:
            json.dump(ev, f, indent=1, default=_enc)
    print('%s %s: %s  paths=%d decisions=%d queries=%d solver=%.1fs obligations=%d/%d xreplays=%d shards=%d wall=%.1fs' % (
        pid, tier, ev['coverage']['status'], paths, decisions, queries, solver_s, discharged, obligations, xre, njobs, wall))
    return status


def replay(path):
    body = json.load(open(path))
    prop = load_prop(body['property'])
    fails, trace, ce = concrete_run(prop, body['harness'], body['params'], body['inputs'], body['choices'])
    print('replay of %s: harness=%s params=%s' % (path, body['harness'], body['params']))
    print('inputs: %s' % body['inputs'])
    print('choices: %s' % body['choices'])
    for n in ce.notes:
        print('  | %s' % n)
    hit = [f for f in fails if f[2] == body['sig']]
    for f in fails:
        print('FAILED %s: %s' % (f[0], f[1]))
    if hit:
        print('VIOLATION property=%s replay=%s' % (body['property'], path))
        return 1
    print('no violation on this tree')
    return 0


if __name__ == '__main__':
    sys.exit(main())
