"""History driver for the flow properties: API calls, broker packets, time and faults as steps
with symbolic data, plus the bookkeeping the monitors need (which request was issued where,
which packets each step delivered and wrote)."""
from fractions import Fraction

from . import refcodec as ref
from . import scen
from .world import World, mkbytearray, mkstr, mkbytes, blist, cplist, all_eq, as_int, lnot, check_no_exceptions


def fixed_jitter():
    return [Fraction(k % 15 + 1, 16) for k in range(512)]


class Req(object):
    """one publish / subscribe / unsubscribe call made by the harness"""

    def __init__(self, kind, order, step, conn):
        self.kind = kind
        self.order = order
        self.step = step
        self.conn = conn
        self.tr = None
        self.qos = None
        self.topic = None       # code points (publish)
        self.payload = None     # byte values (publish)
        self.topics = None      # [(cps, qos)] or [cps]
        self.shape = None
        self.raised = None
        self.window_at_call = None

    @property
    def msgId(self):
        return None if self.tr is None else self.tr.msgId

    def failed_at_once(self):
        return self.tr is not None and self.tr.fired and self.tr.fired[0][0] == self.step and not self.tr.fired[0][1]

    def accepted(self):
        return self.tr is not None and not self.failed_at_once()

    def __repr__(self):
        return 'Req(%s#%d)' % (self.kind, self.order)


class Flow(object):
    def __init__(self, eng, profile='pubsubs', clean=True, ver=311, keepalive=0, jitter='fixed', naddr=1):
        self.eng = eng
        self.w = World(eng, profile, naddr=naddr, jitter_pool=fixed_jitter() if jitter == 'fixed' else None)
        self.profile = profile
        self.ver = ver
        self.clean = clean
        self.keepalive = keepalive
        self.reqs = []
        self.meta = {}          # step index -> dict describing the step
        self.c = None
        self.window = 1         # window size in force (the client's default)
        self.rx_log = []        # (step, conn, fields) of delivered broker packets
        self.parsed = {}        # (conn idx, step) -> packets

    # ------------------------------------------------------------------ session management
    def open(self, ai=0, clean=None, connack=True, sp=0):
        if clean is None:
            clean = self.clean
        w = self.w
        c = w.build(ai)
        c.clean = clean
        c.version = self.ver
        c.window = 1
        self.c = c
        st = w.begin_step('connect')
        self.meta[st] = {'kind': 'connect', 'conn': c, 'clean': clean}
        c.connect_tr = scen.connect(w, c, self.keepalive, clean, self.ver)
        c.connect_step = st
        c.connack_step = None
        if connack:
            self.connack(sp)
        return c

    def connack(self, sp=0, rc=0, c=None):
        c = c or self.c
        st = self.w.begin_step('connack')
        self.meta[st] = {'kind': 'connack', 'conn': c, 'sp': sp, 'rc': rc}
        if scen.connack(self.w, c, sp, rc):
            c.connack_step = st
        return st

    def up(self, c=None):
        c = c or self.c
        return c is not None and c.connack_step is not None and not c.lost and not c.closing

    # ------------------------------------------------------------------ steps: API
    def _new_req(self, kind, st):
        r = Req(kind, len(self.reqs), st, self.c)
        r.window_at_call = self.c.window
        self.reqs.append(r)
        return r

    def publish(self, qos=None, retain=None, c=None, tag=None, pl=None):
        eng, w = self.eng, self.w
        c = c or self.c
        st = w.begin_step('publish')
        r = Req('publish', len(self.reqs), st, c)
        r.window_at_call = c.window
        self.reqs.append(r)
        r.qos = eng.int('qos', 0, 2) if qos is None else qos
        k = r.order if tag is None else tag
        r.topic = [0x41 + k % 26]
        r.payload = [k % 256, eng.int('pl', 0, 255) if pl is None else pl]
        r.retain = eng.bool('retain') if retain is None else retain
        self.meta[st] = {'kind': 'publish', 'req': r, 'conn': c}
        r.tr = w.api(c, 'publish', 'pub%d' % r.order, mkstr(eng, r.topic), mkbytearray(eng, r.payload), qos=r.qos, retain=r.retain)
        w.after_api()
        return r

    def subscribe(self, shape='str', qos=None, c=None, tag=None):
        eng, w = self.eng, self.w
        c = c or self.c
        st = w.begin_step('subscribe')
        r = Req('subscribe', len(self.reqs), st, c)
        r.window_at_call = c.window
        self.reqs.append(r)
        r.shape = shape
        q = (lambda: eng.int('sqos', 0, 2)) if qos is None else (lambda: qos)
        t0 = [0x61 + (r.order if tag is None else tag) % 26]
        if shape == 'empty':
            r.topics = []
            args = ([],)
        elif shape == 'str':
            r.topics = [(t0, q())]
            args = (mkstr(eng, t0), r.topics[0][1])
        elif shape == 'tuple':
            r.topics = [(t0, q())]
            args = ((mkstr(eng, t0), r.topics[0][1]),)
        else:
            t1 = [0x61 + r.order % 26, 0x32]
            r.topics = [(t0, q()), (t1, q())]
            args = ([(mkstr(eng, t), qq) for t, qq in r.topics],)
        self.meta[st] = {'kind': 'subscribe', 'req': r, 'conn': c}
        r.tr = w.api(c, 'subscribe', 'sub%d' % r.order, *args)
        w.after_api()
        return r

    def unsubscribe(self, shape='str', c=None):
        eng, w = self.eng, self.w
        c = c or self.c
        st = w.begin_step('unsubscribe')
        r = Req('unsubscribe', len(self.reqs), st, c)
        r.window_at_call = c.window
        self.reqs.append(r)
        r.shape = shape
        t0 = [0x75, 0x61 + r.order % 26]
        if shape == 'empty':
            r.topics = []
            arg = []
        elif shape == 'str':
            r.topics = [t0]
            arg = mkstr(eng, t0)
        else:
            r.topics = [t0, t0 + [0x32]]
            arg = [mkstr(eng, t) for t in r.topics]
        self.meta[st] = {'kind': 'unsubscribe', 'req': r, 'conn': c}
        r.tr = w.api(c, 'unsubscribe', 'unsub%d' % r.order, arg)
        w.after_api()
        return r

    def set_window(self, n=None, c=None):
        c = c or self.c
        if n is None:
            n = self.eng.int('window', 1, 16)
        st = self.w.begin_step('setWindowSize')
        self.meta[st] = {'kind': 'setWindowSize', 'n': n, 'conn': c}
        r, e = self.w.call(c, 'setWindowSize', n)
        if e is None:
            c.window = n
        return n

    def set_timeout(self, t, c=None):
        c = c or self.c
        st = self.w.begin_step('setTimeout')
        self.meta[st] = {'kind': 'setTimeout', 't': t, 'conn': c}
        self.w.call(c, 'setTimeout', t)
        c.timeout = t

    def set_bandwith(self, b, f, c=None):
        c = c or self.c
        st = self.w.begin_step('setBandwith')
        self.meta[st] = {'kind': 'setBandwith', 'b': b, 'f': f, 'conn': c}
        self.w.call(c, 'setBandwith', b, f)

    def disconnect(self, c=None):
        c = c or self.c
        st = self.w.begin_step('disconnect')
        self.meta[st] = {'kind': 'disconnect', 'conn': c}
        r, e = self.w.call(c, 'disconnect')
        self.w.after_api()
        return e

    # ------------------------------------------------------------------ steps: network
    def rx(self, kind, c=None, **over):
        """deliver one reference-encoded broker packet of `kind` with symbolic fields"""
        c = c or self.c
        pkt, fields = scen.broker_packet(self.eng, kind, ntopic=1, npayload=1, ngranted=over.get('ngranted', 1))
        if 'msgId' in over and fields.get('msgId') is not None:
            # identifier fixed by the caller: rebuild the packet
            fields['msgId'] = over['msgId']
            if kind in ('PUBACK', 'PUBREC', 'PUBREL', 'PUBCOMP', 'UNSUBACK'):
                pkt = ref.enc_ack(getattr(ref, kind), over['msgId'])
            elif kind == 'SUBACK':
                pkt = ref.enc_suback(over['msgId'], fields['granted'])
            else:
                pkt = ref.enc_publish(mkstr(self.eng, fields['topic']), fields['payload'], fields['qos'], fields['dup'], fields['retain'], over['msgId'])
        return self.rx_raw(kind, pkt, fields, c)

    def rx_raw(self, kind, pkt, fields, c=None):
        c = c or self.c
        st = self.w.begin_step('rx:' + kind)
        fields = dict(fields)
        fields['kind'] = kind
        delivered = self.w.rx_list(c, pkt)
        self.meta[st] = {'kind': 'rx', 'pkt': kind, 'fields': fields, 'conn': c, 'delivered': delivered}
        if delivered:
            self.rx_log.append((st, c, fields))
        return st

    def advance(self, dt=None, hi=1000):
        if dt is None:
            dt = self.eng.real('dt', 0, hi)
        st = self.w.begin_step('advance')
        t0 = self.w.now()
        self.meta[st] = {'kind': 'advance', 'dt': dt, 't0': t0}
        self.w.advance(dt)
        return st

    def lose(self, clean_close=True, c=None):
        c = c or self.c
        st = self.w.begin_step('lose')
        self.meta[st] = {'kind': 'lose', 'conn': c}
        c.lose_step = st
        c.pending_at_loss = [r for r in self.reqs if r.tr is not None and not r.tr.fired]
        self.w.lose(c, clean=clean_close)
        return st

    # ------------------------------------------------------------------ wire access
    def packets(self, c, step):
        """strictly parsed packets written on connection c during step (None if malformed)"""
        key = (c.idx, step)
        if key not in self.parsed:
            data = []
            for e in self.w.events:
                if e.kind == 'write' and e.conn is c and e.step == step:
                    data.extend(blist(e.a))
            data = c.pending_tail + data if False else data
            try:
                self.parsed[key] = ref.parse_stream(data, v31=(self.ver == 31), direction=ref.CLIENT_TO_BROKER)
            except ref.Malformed as m:
                self.parsed[key] = None
                self.eng.check(False, 'malformed-write', 'step %d (%s): %s' % (step, self.w.steps[step][0], m), sig='malformed-write')
        return self.parsed[key] or []

    def all_packets(self, conns=None):
        """[(step, conn, time, packet)] over the whole history in write order"""
        out = []
        nsteps = len(self.w.steps)
        for st in range(nsteps):
            for c in (conns or self.w.conns):
                for p in self.packets(c, st):
                    out.append((st, c, p))
        return out

    def write_times(self, c, step):
        return [e.time for e in self.w.events if e.kind == 'write' and e.conn is c and e.step == step]

    def fired_in(self, tr):
        return [s for (s, ok, v) in tr.fired]

    def finish(self):
        check_no_exceptions(self.w)
        return self.w.trace()


def sent_before(flow, r, step):
    """was a PUBLISH / SUBSCRIBE / UNSUBSCRIBE carrying r's identifier written in a step < `step`"""
    t = {'publish': 'PUBLISH', 'subscribe': 'SUBSCRIBE', 'unsubscribe': 'UNSUBSCRIBE'}[r.kind]
    for st in range(r.step, step):
        for c in flow.w.conns:
            for p in flow.packets(c, st):
                if p['type'] == t and p.get('msgId') is not None and r.msgId is not None and p['msgId'] == r.msgId:
                    return True
    return False
