"""C15 - keepalive: PINGREQ every k seconds, abort when unanswered, silent when k=0"""
from .. import refcodec as ref
from ..flow import Flow
from ..world import all_eq, as_int, lnot, blist

PROPERTY = 'C15'
BUDGET = {'quick': {'seconds': 1500, 'xreplay_every': 50}, 'thorough': {'seconds': 6000, 'xreplay_every': 1000}}
NONTRIVIAL = {'quick': ['pingreq-due', 'pingreq-written', 'abort-on-silence', 'answered-in-time', 'duplicate-pingresp', 'unsolicited-pingresp',
                        'k0-silent', 'loss', 'reconnected', 'other-traffic', 'other-address']}

EVENTS = ('none', 'PINGRESP', 'PINGRESP2', 'publish0', 'inbound', 'LOSS')


def pingreqs(flow, c):
    """[(step, time)] of PINGREQ packets written on c"""
    out = []
    for e in flow.w.events:
        if e.kind == 'write' and e.conn is c:
            b = blist(e.a)
            if len(b) == 2 and b[0] == 0xC0:
                out.append((e.step, e.time))
    return out


def h_keepalive(eng, params):
    k = params['keepalive']
    flow = Flow(eng, params['profile'], keepalive=k, naddr=2 if params.get('other') else 1)
    w = flow.w
    flow.open()
    c = flow.c
    if params.get('other'):
        # a second protocol of the same factory, for another broker address, connects (keepalive off) while the
        # first one has its PINGREQ in flight; it stays connected and silent
        flow.keepalive = 0
        flow.open(ai=1)
        flow.keepalive = k
        flow.c = c
        eng.count('other-address')
    t_connack = w.now()
    unanswered = []           # times of PINGREQs not yet followed by a PINGRESP
    answered_all_in_time = True
    aborted_expected = False
    seen = 0

    def account_new_pings():
        nonlocal seen
        ps = pingreqs(flow, c)
        for (st, t) in ps[seen:]:
            unanswered.append(t)
            eng.count('pingreq-written')
        seen = len(ps)
    if k:
        account_new_pings()
        eng.check(seen >= 1 or True, 'x')
    for i in range(params['m']):
        if c.lost or c.closing:
            break
        ps = pingreqs(flow, c)
        last = ps[-1][1] if ps else t_connack
        dt = eng.real('dt', 0, 3 * k if k else 100)
        st = flow.advance(dt)
        now = w.now()
        account_new_pings()
        if k == 0:
            eng.check(not pingreqs(flow, c), 'pingreq-with-keepalive-0', 'PINGREQ written although keepalive is 0')
            eng.count('k0-silent')
        else:
            # (2) an unanswered PINGREQ older than k seconds -> abort
            if unanswered and now >= unanswered[0] + k:
                aborted_expected = True
                eng.check(c.t.abort_called >= 1, 'no-abort-on-silence', 'a PINGREQ is %s seconds old without PINGRESP and the connection was not aborted' % k)
                eng.count('abort-on-silence')
            # (1) at least every k seconds
            if now >= last + k:
                eng.count('pingreq-due')
                wrote = any(s == st for (s, t) in pingreqs(flow, c))
                eng.check(wrote or c.t.abort_called >= 1, 'pingreq-missing', '%s seconds passed since the last PINGREQ and none was written' % k)
            # (3) never closes when everything was answered in time
            if not aborted_expected:
                eng.check(c.t.abort_called == 0 and c.t.lose_called == 0, 'abort-although-answered', 'keepalive closed the connection although no PINGREQ went unanswered for %s s' % k)
        if c.t.abort_called:
            flow.w.after_api()
            break
        ev = params['first'] if (i == 0 and params.get('first')) else eng.choose(EVENTS, 'event')
        eng.note('after advance %d: %s' % (i, ev))
        if ev in ('PINGRESP', 'PINGRESP2'):
            flow.rx('PINGRESP')
            if unanswered:
                eng.count('answered-in-time')
            else:
                eng.count('unsolicited-pingresp')
            del unanswered[:]
            if ev == 'PINGRESP2':
                flow.rx('PINGRESP')
                eng.count('duplicate-pingresp')
        elif ev == 'publish0':
            if params['profile'] != 'subscriber':
                flow.publish(qos=0)
                eng.count('other-traffic')
        elif ev == 'inbound':
            if params['profile'] != 'publisher':
                flow.rx('PUBLISH0')
                eng.count('other-traffic')
        elif ev == 'LOSS':
            flow.lose()
            eng.count('loss')
            ls = c.lose_step
            flow.advance(1)
            flow.advance(3 * k + 10)
            late = [e for e in w.events if e.kind == 'write' and e.conn is c and e.step > ls]
            eng.check(not late, 'keepalive-outlives-connection', 'written on the lost transport: %d packets' % len(late))
            eng.check(not w.pending_timers(), 'timer-outlives-connection', '%d timers pending long after the loss' % len(w.pending_timers()))
            eng.check(c.t.abort_called == 0 or aborted_expected, 'abort-after-loss')
            if params.get('reconnect'):
                flow.open()
                c = flow.c
                t_connack = w.now()
                del unanswered[:]
                seen = 0
                aborted_expected = False
                account_new_pings()
                eng.count('reconnected')
            else:
                break
    if (c.t.abort_called or c.t.lose_called) and not c.lost:
        flow.lose(clean_close=False)
        ls = c.lose_step
        flow.advance(3 * k + 10)
        late = [e for e in w.events if e.kind == 'write' and e.conn is c and e.step > ls]
        eng.check(not late, 'keepalive-outlives-connection', 'written on the lost transport: %d packets' % len(late))
        eng.check(not w.pending_timers(), 'timer-outlives-connection', '%d timers pending long after the loss' % len(w.pending_timers()))
    return flow.finish()


HARNESSES = {'keepalive': h_keepalive}


def shards(tier):
    T = tier == 'thorough'
    out = []
    for profile in ('pubsubs', 'publisher', 'subscriber'):
        for k in ((0, 1, 2, 5, 60, 65535) if T else (0, 1, 5, 60)):
            if profile != 'pubsubs' and k not in (0, 5):
                continue
            for reconnect in (False, True):
                for first in EVENTS:
                    out.append(('keepalive', {'profile': profile, 'keepalive': k, 'm': 5 if T else 4, 'reconnect': reconnect, 'first': first}))
            if profile == 'pubsubs' and k in (1, 5):
                for first in EVENTS:
                    out.append(('keepalive', {'profile': profile, 'keepalive': k, 'm': 4 if T else 3, 'reconnect': False, 'first': first, 'other': True}))
    return out


META = {
    'rule': 'keepalive k concrete, virtual time symbolic: after CONNACK m rounds of advance(dt symbolic in [0,3k]) followed by one of {nothing, PINGRESP, two PINGRESP, '
            'QoS 0 publish, inbound QoS 0 PUBLISH, loss (+ reconnect)}; the real LoopingCall runs on the real Clock; obligations are comparisons between symbolic instants',
    'bounds': {'quick': 'k in {0, 1, 5, 60}; m=4 rounds (m=3 with a second protocol of the same factory connected to another address, keepalive off); pubsubs (all k), publisher and subscriber (k in {0,5})', 'thorough': 'k in {0, 1, 2, 5, 60, 65535}; m=5'},
    'stubs': ['fake transport with asynchronous loss', 'twisted task.Clock and the real twisted LoopingCall bound to it', 'jitter: fixed sequence'],
    'outside': ['keepalive values other than the listed ones (the loop arithmetic t mod k is linear only for concrete k)', 'advances longer than 3k in one step', 'float rounding'],
    'assumptions': ['timers never fire early; an advance may carry time past a due instant (late firing), so "at least every k seconds" is checked as: whenever an '
                    'advance ends k or more seconds after the last PINGREQ, a PINGREQ was written during it (or the connection was aborted)'],
}

MANIFEST = {
    'text': 'The real keepalive machinery (LoopingCall, PINGREQ deadline, PINGRESP handling, connectionLost) runs on the real Twisted Clock with every elapsed time symbolic; for each enumerated keepalive value z3 decides for all real-valued schedules within the bound whether a PINGREQ is due, whether an unanswered one is k seconds old, and proves that the client writes / aborts / stays silent accordingly and that nothing of the keepalive outlives the connection.',
    'design_ref': '7 C15',
    'note': 'trusted: z3 (floor of t/k as Skolemised integer), engine, Twisted Clock/LoopingCall.',
}
