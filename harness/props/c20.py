"""C20 - invalid arguments rejected atomically with ValueError/TypeError; valid accepted"""
from fractions import Fraction
from .. import refcodec as ref
from .. import scen
from ..world import lnot, World, mkbytearray, mkstr, blist, cplist, all_eq, as_int, check_no_exceptions, parse_writes

PROPERTY = 'C20'
BUDGET = {'quick': {'seconds': 900, 'xreplay_every': 3}, 'thorough': {'seconds': 3000, 'xreplay_every': 3}}
NONTRIVIAL = {'quick': ['setter.accepted', 'setter.rejected', 'connect.accepted', 'connect.rejected', 'connect.rejected.carried', 'publish.accepted', 'publish.rejected',
                        'subscribe.accepted', 'subscribe.rejected', 'unsubscribe.accepted', 'unsubscribe.rejected']}
MARK = 0x5A


def jitter():
    return [Fraction(k % 15 + 1, 16) for k in range(256)]


def failed_with(tr):
    if tr is None or not tr.fired or tr.fired[0][1]:
        return None
    return tr.fired[0][2].value


def quiet(eng, w, c, mark, timers_before, what):
    """the rejected call left no trace: no write, no close, no new timer"""
    evs = [e for e in w.events[mark:] if e.kind in ('write', 'lose', 'abort', 'onPublish', 'onDisconnection')]
    eng.check(not evs, 'rejected-call-effect', '%s: %s' % (what, [e.kind for e in evs]), sig='rejected-call-effect:' + what)
    new = [t for t in w.pending_timers() if t not in timers_before]
    gone = [t for t in timers_before if t not in w.pending_timers()]
    eng.check(not new and not gone, 'rejected-call-timers', what, sig='rejected-call-timers:' + what)


def has_mark(w, since):
    for e in w.events[since:]:
        if e.kind == 'write':
            b = blist(e.a)
            for i in range(len(b) - 1):
                if b[i] == MARK and b[i + 1] == MARK:
                    return True
    return False


# ------------------------------------------------------------------------------ setters

def h_setter(eng, params):
    which = params['which']
    w, c, req = scen.busy_prefix(eng, params['profile'], params['state'], jitter_pool=jitter())
    w.begin_step('setter')
    mark = len(w.events)
    tb = list(w.pending_timers())
    if which == 'setWindowSize':
        n = eng.int('n')
        r, exc = w.call(c, 'setWindowSize', n)
        inrange = (1 <= n) & (n <= 16)
    elif which == 'setTimeout':
        n = eng.int('t') if params.get('sort') == 'int' else eng.real('t', -10, 3000)
        r, exc = w.call(c, 'setTimeout', n)
        inrange = (1 <= n) & (n <= 1024)
    else:
        b = eng.real('bw', -5, 1000000)
        f = eng.real('factor', -5, 16)
        r, exc = w.call(c, 'setBandwith', b, f)
        inrange = (b > 0) & (f > 0)
    if exc is None:
        eng.check(inrange, 'accepted-out-of-range', '%s accepted an out-of-range value' % which, sig='accepted-out-of-range:' + which)
        eng.count('setter.accepted')
    else:
        eng.check(isinstance(exc, ValueError), 'wrong-exception', '%s raised %s' % (which, type(exc).__name__), sig='wrong-exception:' + which)
        eng.check(lnot(inrange), 'rejected-in-range', '%s rejected an in-range value' % which,
                  sig='rejected-in-range:' + which)
        eng.count('setter.rejected')
        w.events = [e for e in w.events if not (e.kind == 'exc' and e.a[1] is exc)]
    quiet(eng, w, c, mark, tb, which)
    check_no_exceptions(w)
    return w.trace()


# ------------------------------------------------------------------------------ connect

def carried_session(eng, w):
    """a persistent-session connection with an unacknowledged QoS 1 publish, lost; returns the publish Tracked"""
    c0 = w.build()
    w.begin_step('connect-0')
    scen.connect(w, c0, 0, False)
    w.begin_step('connack-0')
    scen.connack(w, c0)
    w.begin_step('publish-0')
    tr = w.api(c0, 'publish', 'carried', scen.topic(eng, 0x6b), mkbytearray(eng, [5]), qos=1)
    w.begin_step('lose-0')
    w.lose(c0)
    w.begin_step('notify-0')
    w.advance(1)
    return tr


def h_connect(eng, params):
    import mqtt
    case = params['case']
    w = World(eng, params['profile'], jitter_pool=jitter())
    c = w.build()
    w.begin_step('connect')
    mark = len(w.events)
    tb = list(w.pending_timers())
    kw = dict(keepalive=0, cleanStart=True, version=mqtt.v311)
    cid = scen.client_id(eng)
    expect_ok = None
    long_ = lambda n: mkstr(eng, [0x61] * n)
    if case == 'willQoS':
        q = eng.int('willQoS')
        kw.update(willTopic=scen.topic(eng), willMessage=scen.topic(eng, 0x6d), willQoS=q)
        expect_ok = (0 <= q) & (q <= 2)
    elif case == 'keepalive':
        k = eng.int('keepalive')
        kw.update(keepalive=k)
        expect_ok = (0 <= k) & (k <= 65535)
    elif case == 'clientid31':
        n = params['n']
        cid = mkstr(eng, [eng.int('c', 0x30, 0x7A)] + [0x61] * (n - 1))
        kw.update(version=mqtt.v31)
        expect_ok = n <= 23
    elif case == 'clientid311':
        n = params['n']
        cid = mkstr(eng, [eng.int('c', 0x30, 0x7A)] + [0x61] * (n - 1))
        expect_ok = n <= 65535
    elif case == 'version':
        v = {'v31': mqtt.v31, 'v311': mqtt.v311, 'zero': 0, 'none': None, 'dict': {'level': 5, 'tag': 'MQTT'},
             'copy311': {'level': 4, 'tag': 'MQTT'}}[params['v']]
        kw.update(version=v)
        expect_ok = params['v'] in ('v31', 'v311', 'copy311')
    elif case == 'will-topic-only':
        kw.update(willTopic=scen.topic(eng))
        expect_ok = False
    elif case == 'will-message-only':
        kw.update(willMessage=scen.topic(eng))
        expect_ok = False
    elif case == 'will-both':
        kw.update(willTopic=scen.topic(eng), willMessage=scen.topic(eng), willQoS=eng.int('q', 0, 2), willRetain=eng.bool('r'))
        expect_ok = True
    elif case == 'will-message-empty-only':
        kw.update(willMessage=mkstr(eng, []))
        expect_ok = False
    elif case == 'will-topic-empty-only':
        kw.update(willTopic=mkstr(eng, []))
        expect_ok = False
    elif case == 'password-empty-only':
        kw.update(password=mkstr(eng, []))
        expect_ok = False
    elif case == 'will-empty-message':
        kw.update(willTopic=scen.topic(eng), willMessage=mkstr(eng, []))
        expect_ok = True
    elif case == 'user-empty-password':
        kw.update(username=scen.topic(eng), password=mkstr(eng, []))
        expect_ok = True
    elif case == 'password-only':
        kw.update(password=scen.topic(eng))
        expect_ok = False
    elif case == 'user-password':
        kw.update(username=scen.topic(eng), password=scen.topic(eng))
        expect_ok = True
    elif case == 'longfield':
        n = params['n']
        f = params['field']
        if f in ('willTopic', 'willMessage'):
            kw.update(willTopic=scen.topic(eng), willMessage=scen.topic(eng))
        if f == 'password':
            kw.update(username=scen.topic(eng))
        kw[f] = long_(n)
        expect_ok = n <= 65535
    carried = None
    if params.get('carried'):
        carried = carried_session(eng, w)
        c = w.build()
        w.begin_step('connect')
        mark = len(w.events)
        tb = list(w.pending_timers())
    tr = w.api(c, 'connect', 'connect', cid, **kw)
    w.after_api()
    eng.check(tr is not None, 'connect-raised', 'connect() raised instead of returning a failed Deferred (%s)' % case, sig='connect-raised:' + case)
    if tr is None:
        w.events = [e for e in w.events if e.kind != 'exc']
        return w.trace()
    err = failed_with(tr)
    if err is None:
        eng.check(expect_ok, 'accepted-invalid', 'connect() accepted invalid arguments (%s)' % case, sig='accepted-invalid:connect:' + case)
        eng.check(not tr.fired and len([e for e in w.events[mark:] if e.kind == 'write']) == 1, 'accepted-effect')
        eng.count('connect.accepted')
    else:
        eng.check(isinstance(err, (ValueError, TypeError)), 'wrong-exception', 'connect() failed with %s (%s)' % (type(err).__name__, case),
                  sig='wrong-exception:connect:' + case)
        eng.check(lnot(expect_ok), 'rejected-valid', 'connect() rejected valid arguments (%s)' % case,
                  sig='rejected-valid:connect:' + case)
        quiet(eng, w, c, mark, tb, 'connect:' + case)
        eng.count('connect.rejected')
        # the same invalid call again is rejected again (nothing was remembered from the first attempt)
        w.begin_step('connect-again-invalid')
        m1 = len(w.events)
        tr1 = w.api(c, 'connect', 'connect-repeat', cid, **kw)
        e1 = failed_with(tr1)
        eng.check(e1 is not None and isinstance(e1, (ValueError, TypeError)), 'repeated-invalid-call-accepted',
                  'the same invalid connect() was accepted the second time (%s)' % case, sig='repeated-invalid-call-accepted:connect:' + case)
        quiet(eng, w, c, m1, tb, 'connect-repeat:' + case)
        if carried is not None:
            # a rejected call changes nothing: the session carried over from the earlier connection is intact
            eng.check(not carried.fired, 'rejected-call-touched-session', 'a rejected connect() fired the Deferred of a carried-over publish (%s)' % (
                type(carried.fired[0][2].value).__name__ if carried.fired and not carried.fired[0][1] else 'success'),
                sig='rejected-call-touched-session:' + case)
            eng.count('connect.rejected.carried')
        # state unchanged: a valid connect() still goes through
        w.begin_step('connect-valid')
        m2 = len(w.events)
        tr2 = scen.connect(w, c, 0, carried is None)
        eng.check(tr2 is not None and not tr2.fired and len([e for e in w.events[m2:] if e.kind == 'write']) == 1, 'state-changed-by-rejected-call',
                  sig='state-changed-by-rejected-call:connect:' + case)
        if carried is not None:
            w.begin_step('connack-valid')
            m3 = len(w.events)
            scen.connack(w, c, 1, 0)
            resent = [e for e in w.events[m3:] if e.kind == 'write']
            eng.check(len(resent) == 1 and not carried.fired, 'rejected-call-touched-session',
                      'after a rejected connect() the persistent session no longer resumes its unacknowledged PUBLISH', sig='rejected-call-touched-session:resume:' + case)
    check_no_exceptions(w)
    return w.trace() if params.get('n', 0) < 1000 else None


# ------------------------------------------------------------------------------ publish / subscribe / unsubscribe

BAD_PAYLOADS = {'None': None, 'int': 5, 'float': 12.25, 'bytes': b'abc', 'list': [1, 2], 'tuple': (1, 2), 'bool': True}
BAD_TOPICS = {'int': 5, 'None': None, 'dict': {'a': 1}, 'bytes': b'abc', 'float': 1.5, 'set': {1}}


def h_request(eng, params):
    op, case = params['op'], params['case']
    w, c, req = scen.busy_prefix(eng, params['profile'], params['state'], jitter_pool=jitter(), window=params.get('window', 8))
    w.begin_step(op)
    mark = len(w.events)
    tb = list(w.pending_timers())
    mt = mkstr(eng, [MARK, MARK])
    expect_ok = True
    if op == 'publish':
        qos = eng.int('qos', 0, 2)
        payload = mkbytearray(eng, [7])
        topic = mt
        if case == 'qos':
            qos = eng.int('qos')
            expect_ok = (0 <= qos) & (qos <= 2)
        elif case == 'payload':
            payload = BAD_PAYLOADS[params['type']]
            expect_ok = False
        elif case == 'payload-ok':
            payload = mkstr(eng, [0x41]) if params['type'] == 'str' else mkbytearray(eng, [1, 2])
        elif case == 'longtopic':
            topic = mkstr(eng, [MARK, MARK] + [0x61] * (params['n'] - 2))
            expect_ok = params['n'] <= 65535
        ret = eng.bool('retain')
        tr = w.api(c, 'publish', 'op', topic, payload, qos=qos, retain=ret)
        params = dict(params)
        params['repeat'] = lambda w_, c_: w_.api(c_, 'publish', 'op-repeat', topic, payload, qos=qos, retain=ret)
    elif op == 'subscribe':
        if case == 'qos':
            q = eng.int('qos')
            expect_ok = (0 <= q) & (q <= 2)
            shape = params['shape']
            if shape == 'str':
                tr = w.api(c, 'subscribe', 'op', mt, q)
            elif shape == 'tuple':
                tr = w.api(c, 'subscribe', 'op', (mt, q))
            else:
                tr = w.api(c, 'subscribe', 'op', [(scen.topic(eng), eng.int('q0', 0, 2)), (mt, q)])
        else:
            expect_ok = False
            tr = w.api(c, 'subscribe', 'op', BAD_TOPICS[params['type']], eng.int('qos', 0, 2))
    else:
        if case == 'ok':
            tr = w.api(c, 'unsubscribe', 'op', mt if params['shape'] == 'str' else [scen.topic(eng), mt])
        else:
            expect_ok = False
            tr = w.api(c, 'unsubscribe', 'op', BAD_TOPICS[params['type']])
    w.after_api()
    what = '%s:%s:%s' % (op, case, params.get('type', params.get('shape', '')))
    eng.check(tr is not None, 'call-raised', '%s() raised instead of returning a failed Deferred' % op, sig='call-raised:' + what)
    if tr is None:
        w.events = [e for e in w.events if e.kind != 'exc']
        return w.trace()
    err = failed_with(tr)
    if err is None:
        eng.check(expect_ok, 'accepted-invalid', '%s() accepted invalid arguments (%s)' % (op, what), sig='accepted-invalid:' + what)
        eng.count(op + '.accepted')
    else:
        eng.check(isinstance(err, (ValueError, TypeError)), 'wrong-exception', '%s() failed with %s (%s)' % (op, type(err).__name__, what),
                  sig='wrong-exception:' + what)
        eng.check(lnot(expect_ok), 'rejected-valid', '%s() rejected valid arguments (%s)' % (op, what),
                  sig='rejected-valid:' + what)
        quiet(eng, w, c, mark, tb, what)
        eng.count(op + '.rejected')
        if params.get('repeat'):
            w.begin_step(op + '-again-invalid')
            m1 = len(w.events)
            tb1 = list(w.pending_timers())
            tr1 = params['repeat'](w, c)
            e1 = failed_with(tr1)
            eng.check(e1 is not None and isinstance(e1, (ValueError, TypeError)), 'repeated-invalid-call-accepted',
                      'the same invalid %s() was accepted the second time (%s)' % (op, what), sig='repeated-invalid-call-accepted:' + what)
            quiet(eng, w, c, m1, tb1, what + ':repeat')
        # nothing queued: no packet with the marker topic ever appears, a valid request still works
        w.begin_step('valid-after')
        m2 = len(w.events)
        if op == 'publish':
            tr2 = w.api(c, 'publish', 'after', scen.topic(eng, 0x76), mkbytearray(eng, [1]), qos=0)
            if params['state'] == 'connected' and not params.get('window'):
                eng.check(len([e for e in w.events[m2:] if e.kind == 'write']) == 1, 'state-changed-by-rejected-call', sig='state-changed:' + what)
            eng.check(tr2 is not None and not (tr2.fired and not tr2.fired[0][1]), 'state-changed-by-rejected-call', sig='state-changed:refused:' + what)
        if params['state'] == 'connecting':
            w.begin_step('connack')
            scen.connack(w, c)
        w.begin_step('later')
        w.advance(300)
        eng.check(not has_mark(w, mark), 'rejected-call-leaked', 'a packet of the rejected %s() was written later' % op, sig='rejected-call-leaked:' + what)
    check_no_exceptions(w)
    return w.trace() if params.get('n', 0) < 1000 else None


HARNESSES = {'setter': h_setter, 'connect': h_connect, 'request': h_request}


def shards(tier):
    out = []
    for profile, state in (('pubsubs', 'idle'), ('pubsubs', 'connecting'), ('pubsubs', 'connected'), ('publisher', 'connected'), ('subscriber', 'connected')):
        out.append(('setter', {'which': 'setWindowSize', 'profile': profile, 'state': state}))
        out.append(('setter', {'which': 'setTimeout', 'sort': 'int', 'profile': profile, 'state': state}))
        out.append(('setter', {'which': 'setTimeout', 'sort': 'real', 'profile': profile, 'state': state}))
        if profile != 'subscriber' or True:
            out.append(('setter', {'which': 'setBandwith', 'profile': profile, 'state': state}))
    for profile in ('pubsubs', 'publisher', 'subscriber'):
        for case in ('willQoS', 'keepalive', 'will-topic-only', 'will-message-only', 'will-both', 'password-only', 'user-password',
                     'will-message-empty-only', 'will-topic-empty-only', 'password-empty-only', 'will-empty-message', 'user-empty-password'):
            out.append(('connect', {'profile': profile, 'case': case}))
        for v in ('v31', 'v311', 'zero', 'none', 'dict', 'copy311'):
            out.append(('connect', {'profile': profile, 'case': 'version', 'v': v}))
        for n in (1, 22, 23, 24, 25):
            out.append(('connect', {'profile': profile, 'case': 'clientid31', 'n': n}))
        for n in (24, 65535, 65536):
            out.append(('connect', {'profile': profile, 'case': 'clientid311', 'n': n}))
    for case in ('willQoS', 'keepalive', 'will-topic-only', 'password-only'):
        out.append(('connect', {'profile': 'pubsubs', 'case': case, 'carried': True}))
    out.append(('connect', {'profile': 'publisher', 'case': 'version', 'v': 'none', 'carried': True}))
    out.append(('connect', {'profile': 'pubsubs', 'case': 'longfield', 'field': 'username', 'n': 65536, 'carried': True}))
    for f in ('willTopic', 'willMessage', 'username', 'password'):
        for n in (65535, 65536):
            out.append(('connect', {'profile': 'pubsubs', 'case': 'longfield', 'field': f, 'n': n}))
    for profile, state in (('pubsubs', 'connecting'), ('pubsubs', 'connected'), ('publisher', 'connecting'), ('publisher', 'connected')):
        out.append(('request', {'op': 'publish', 'case': 'qos', 'profile': profile, 'state': state}))
        for t in sorted(BAD_PAYLOADS):
            out.append(('request', {'op': 'publish', 'case': 'payload', 'type': t, 'profile': profile, 'state': state}))
        for t in ('str', 'bytearray'):
            out.append(('request', {'op': 'publish', 'case': 'payload-ok', 'type': t, 'profile': profile, 'state': state}))
        for n in (65535, 65536):
            out.append(('request', {'op': 'publish', 'case': 'longtopic', 'n': n, 'profile': profile, 'state': state}))
    # the same with the publish window full (two publishes in flight, window 2): the call must still be refused up front
    for t in ('None', 'int', 'bytes'):
        out.append(('request', {'op': 'publish', 'case': 'payload', 'type': t, 'profile': 'pubsubs', 'state': 'connected', 'window': 2}))
    out.append(('request', {'op': 'publish', 'case': 'longtopic', 'n': 65536, 'profile': 'publisher', 'state': 'connected', 'window': 2}))
    out.append(('request', {'op': 'publish', 'case': 'qos', 'profile': 'publisher', 'state': 'connected', 'window': 2}))
    for profile in ('pubsubs', 'subscriber'):
        for shape in ('str', 'tuple', 'list'):
            out.append(('request', {'op': 'subscribe', 'case': 'qos', 'shape': shape, 'profile': profile, 'state': 'connected'}))
        for t in sorted(BAD_TOPICS):
            out.append(('request', {'op': 'subscribe', 'case': 'type', 'type': t, 'profile': profile, 'state': 'connected'}))
            out.append(('request', {'op': 'unsubscribe', 'case': 'type', 'type': t, 'profile': profile, 'state': 'connected'}))
        for shape in ('str', 'list'):
            out.append(('request', {'op': 'unsubscribe', 'case': 'ok', 'shape': shape, 'profile': profile, 'state': 'connected'}))
    return out


META = {
    'rule': 'one harness per API entry point and argument; numeric arguments are unconstrained symbolic integers/reals so both directions of "accepted iff in range" '
            'are validity queries; non-trivial = accepted and rejected classes per entry point',
    'bounds': {'quick': 'setWindowSize(n), setTimeout(t int / real in -10..3000), setBandwith(b in -5..1e6, f in -5..16) in 5 profile/state combinations with requests pending; '
                        'connect: willQoS and keepalive unconstrained integers, client-id lengths 1,22,23,24,25 (v3.1) and 24,65535,65536 (v3.1.1), six version values, will '
                        'topic/message presence (also with empty strings), password without user, every string field at 65535/65536 bytes; every rejected call is repeated once and must be rejected again; rejected connect() also on a rebuilt protocol holding a carried-over persistent session; publish: QoS unconstrained, 7 wrong payload types, topic at '
                        '65535/65536 bytes, in connecting/connected x publisher/pubsubs; subscribe: QoS unconstrained in the three shapes, 6 wrong topic types; unsubscribe: two shapes, 6 wrong types',
               'thorough': 'same (single-call space is covered completely at the quick tier)'},
    'stubs': ['fake transport', 'twisted task.Clock', 'jitter: fixed sequence'],
    'outside': ['non-integer window sizes', 'more than two invalid calls in a row', 'wrong argument types for connect() (not listed by the property)', 'sequences of several invalid calls'],
    'assumptions': [],
}

MANIFEST = {
    'text': 'Each API entry point is called once with unconstrained symbolic numeric arguments (or enumerated wrong types / boundary lengths) in every state and profile that allows the call, with requests pending. z3 decides both directions of "accepted iff in the documented range" for all integers/reals; rejected calls must fail with ValueError/TypeError, leave an empty observation log, start or cancel no timer, leak no packet later, and leave the protocol able to accept a valid call.',
    'design_ref': '7 C20',
    'note': 'trusted: z3, engine, Twisted Clock/Deferred.',
}
