"""C17 - packet identifiers are 1..65535 and never shared by two unfinished requests"""
from fractions import Fraction
from .. import refcodec as ref
from .. import scen
from ..world import World, mkbytearray, mkstr, blist, cplist, all_eq, as_int, check_no_exceptions, parse_writes

PROPERTY = 'C17'
BUDGET = {'quick': {'seconds': 900, 'xreplay_every': 10}, 'thorough': {'seconds': 3000, 'xreplay_every': 50}}
NONTRIVIAL = {'quick': ['makeId.step', 'fresh.new-request', 'fresh.wrap', 'fresh.unfinished']}


def jitter():
    return [Fraction(k % 15 + 1, 16) for k in range(256)]


def h_step(eng, params):
    """whole-domain single step of the allocator"""
    w = World(eng, 'pubsubs')
    c0 = eng.int('counter', 0, 65535)
    w.fac.id = c0
    i = w.fac.makeId()
    eng.check((1 <= i) & (i <= 65535), 'makeId-range')
    # with nothing in use the allocator is the successor function modulo the wrap
    eng.check(i == (c0 + 1) % 65536 + (1 if False else 0) if not eng.feasible(c0 == 65535) else True, 'makeId-successor-trivial')
    j = w.fac.makeId()
    eng.check((1 <= j) & (j <= 65535), 'makeId-range')
    eng.check(i != j, 'makeId-consecutive-distinct')
    eng.count('makeId.step')
    return {'i': i, 'j': j}


def unfinished_prefix(eng, w, ai, persistent):
    """requests of every kind left unfinished on address ai; returns (conn, [Tracked...])"""
    c = w.build(ai)
    w.begin_step('connect')
    scen.connect(w, c, 0, not persistent)
    w.begin_step('connack')
    scen.connack(w, c)
    w.begin_step('requests')
    c.p.setWindowSize(2)
    reqs = []
    reqs.append(w.api(c, 'publish', 'pub1', scen.topic(eng), mkbytearray(eng, [1]), qos=1))       # in flight, QoS 1
    reqs.append(w.api(c, 'publish', 'pub2', scen.topic(eng), mkbytearray(eng, [2]), qos=2))       # -> PUBREL stage
    w.begin_step('pubrec')
    w.rx_list(c, ref.enc_ack(ref.PUBREC, reqs[1].msgId))
    w.begin_step('requests-2')
    reqs.append(w.api(c, 'publish', 'pub3', scen.topic(eng), mkbytearray(eng, [3]), qos=2))       # in flight, QoS 2
    reqs.append(w.api(c, 'publish', 'pub4', scen.topic(eng), mkbytearray(eng, [4]), qos=1))       # held back (window 2 is full)
    reqs.append(w.api(c, 'subscribe', 'sub', scen.topic(eng), 1))
    reqs.append(w.api(c, 'unsubscribe', 'unsub', scen.topic(eng)))
    if persistent:
        # preserved by a persistent session across a loss
        w.begin_step('lose')
        w.lose(c)
        c = w.build(ai)
        w.begin_step('reconnect')
        scen.connect(w, c, 0, False)
        w.begin_step('connack-2')
        scen.connack(w, c, 1, 0)
        c.p.setWindowSize(2)
    return c, [r for r in reqs if r is not None]


def ids_on_wire(eng, w, since):
    """identifiers of PUBLISH(QoS>0)/SUBSCRIBE/UNSUBSCRIBE/PUBREL packets written since event index"""
    out = []
    data = {}
    for e in w.events[since:]:
        if e.kind == 'write':
            data.setdefault(e.conn, []).extend(blist(e.a))
    for conn, b in data.items():
        pk = ref.parse_stream(b, v31=False, direction=ref.CLIENT_TO_BROKER)
        for p in pk:
            if p.get('msgId') is not None and p['type'] in ('PUBLISH', 'SUBSCRIBE', 'UNSUBSCRIBE', 'PUBREL'):
                out.append((p['type'], p['msgId']))
    return out


def h_fresh(eng, params):
    w = World(eng, 'pubsubs', naddr=params.get('naddr', 1), jitter_pool=jitter())
    conns = []
    unfinished = []
    for ai in range(params.get('naddr', 1)):
        c, reqs = unfinished_prefix(eng, w, ai, params.get('persistent', False) and ai == 0)
        conns.append(c)
        unfinished.extend(reqs)
    pending = [r for r in unfinished if not r.fired]
    eng.count('fresh.unfinished', len(pending))
    # the counter is placed anywhere: stands for the allocate-and-finish cycles between two requests
    c0 = eng.int('counter', 0, 65535)
    w.fac.id = c0
    eng.note('counter placed at a symbolic position')
    mark = len(w.events)
    new = []
    for k in range(params['m']):
        kind = params['first'] if (k == 0 and params.get('first')) else eng.choose(('publish1', 'publish2', 'subscribe', 'unsubscribe'), 'kind')
        c = conns[eng.choose(len(conns), 'addr')] if len(conns) > 1 else conns[0]
        c.p.setWindowSize(16)
        w.begin_step('new:' + kind)
        if kind.startswith('publish'):
            tr = w.api(c, 'publish', 'new%d' % k, scen.topic(eng, 0x6e), mkbytearray(eng, [k]), qos=int(kind[-1]))
        elif kind == 'subscribe':
            tr = w.api(c, 'subscribe', 'new%d' % k, scen.topic(eng, 0x6e), 1)
        else:
            tr = w.api(c, 'unsubscribe', 'new%d' % k, scen.topic(eng, 0x6e))
        eng.check(tr is not None and not (tr.fired and not tr.fired[0][1]), 'new-request-refused', sig='new-request-refused:' + kind)
        if tr is None or tr.msgId is None:
            continue
        i = tr.msgId
        eng.check((1 <= i) & (i <= 65535), 'identifier-range', 'identifier outside 1..65535 on a Deferred')
        for u in pending + new:
            eng.check(i != u.msgId, 'identifier-reused', 'new %s got the identifier of unfinished %s' % (kind, u.tag),
                      sig='identifier-reused:%s' % (u.tag if not u.tag.startswith('new') else 'new'))
        new.append(tr)
        eng.count('fresh.new-request')
        if eng.feasible(i <= c0):
            eng.count('fresh.wrap')
    for (t, i) in ids_on_wire(eng, w, mark):
        eng.check((1 <= i) & (i <= 65535), 'identifier-range-wire', 'identifier outside 1..65535 on the wire')
    wire = ids_on_wire(eng, w, mark)
    for tr in new:
        eng.check(any(eng.valid(i == tr.msgId) for (t, i) in wire) or tr.tag.startswith('new') and False, 'identifier-wire-vs-deferred',
                  'identifier on the Deferred never appears on the wire')
    check_no_exceptions(w)
    return w.trace()


HARNESSES = {'step': h_step, 'fresh': h_fresh}


def shards(tier):
    T = tier == 'thorough'
    out = [('step', {})]
    for persistent in (False, True):
        for m in ((1, 2, 3) if T else (1, 2)):
            out.append(('fresh', {'m': m, 'persistent': persistent, 'naddr': 1}))
    for first in ('publish1', 'publish2', 'subscribe', 'unsubscribe'):
        out.append(('fresh', {'m': 2 if not T else 3, 'persistent': False, 'naddr': 2, 'first': first}))
        if T:
            out.append(('fresh', {'m': 3, 'persistent': True, 'naddr': 2, 'first': first}))
    return out


META = {
    'rule': 'allocator step over the whole counter domain; then histories that leave one request of every kind unfinished (QoS1 in flight, QoS2 in flight, '
            'QoS2 awaiting PUBCOMP, held-back PUBLISH, SUBSCRIBE, UNSUBSCRIBE, optionally preserved across a persistent-session loss), place the counter at a '
            'symbolic position 0..65535 and issue m further requests of forked kinds; non-trivial = new requests, wrap-around feasible',
    'bounds': {'quick': 'counter 0..65535 symbolic; 6 unfinished requests per address; m<=2 new requests on one address (clean and persistent), m=2 on two addresses',
               'thorough': 'm<=3; two addresses with persistent session'},
    'stubs': ['fake transport', 'twisted task.Clock', 'jitter: fixed sequence',
              'factory.id assigned directly to place the counter (stands for the allocate-and-finish cycles of a long-running client)'],
    'outside': ['more than 6 unfinished requests per address', 'more than 3 new requests after the counter placement'],
    'assumptions': ['the counter position is arbitrary: every value 0..65535 is reachable by allocate-and-finish cycles'],
}

MANIFEST = {
    'text': 'The allocator step is decided over the whole 16-bit counter domain, and freshness is decided for a symbolic counter position (all 65536 values at once) against one unfinished request of every kind, on one and two addresses and across a persistent-session loss: z3 proves each new identifier differs from every unfinished one or returns the counter value that collides, which is replayed on the real client.',
    'design_ref': '7 C17',
    'note': 'trusted: z3, engine, reference codec (wire parse), Twisted. The counter placement writes the public attribute factory.id.',
}
