"""C12 - persistent session: in-flight publishes survive loss, resume on next connection"""
from .. import refcodec as ref
from ..flow import Flow
from ..world import all_eq, as_int, lnot
from . import c05

PROPERTY = 'C12'
BUDGET = {'quick': {'seconds': 1500, 'xreplay_every': 100}, 'thorough': {'seconds': 6000, 'xreplay_every': 2000}}
NONTRIVIAL = {'quick': ['resume.publish', 'resume.pubrel', 'resume.held-back', 'resume.released-by-window', 'clean-reconnect.cleared', 'early-publish.persistent',
                        'early-publish.clean', 'late-publish', 'completed-after-resume', 'second-loss', 'nothing-carried', 'lost-before-connack', 'qos0-queued', 'near-wrap']}

KINDS = ('publish', 'PUBACK', 'PUBREC', 'PUBCOMP', 'advance', 'LOSS')


def stage_of(flow, r, upto):
    """'held' | 'sent' | 'released' | 'done' of publish request r judged from the logs before step `upto`"""
    eng = flow.eng
    if r.tr.fired and r.tr.fired[0][0] < upto:
        return 'done'
    first = None
    for (st, c, p) in flow.all_packets():
        if st < upto and p['type'] == 'PUBLISH' and all_eq(p['topic'], r.topic) is True:
            first = st
            break
    if first is None:
        return 'held'
    for (st, c, f) in flow.rx_log:
        if first < st < upto and f['kind'] == 'PUBREC' and f['msgId'] == r.msgId:
            return 'released'
    return 'sent'


def h_persist(eng, params):
    import mqtt.client.pubsubs as mps
    profile = params['profile']
    flow = Flow(eng, profile, clean=False)
    w = flow.w
    if params.get('near_wrap'):
        # the identifier counter shortly before the 16-bit wrap: identifiers of one session straddle it
        w.fac.id = eng.int('counter', 65531, 65535)
        eng.count('near-wrap')
    flow.open()
    flow.set_window()
    for rnd in range(params['rounds']):
        # ---- a stretch of traffic on the current connection, cut by the loss
        for i in range(params['k']):
            forced = params.get('first') if (i == 0 and rnd == 0) else None
            kind = forced if forced is not None else eng.choose(KINDS, 'step')
            eng.note('round %d free step %d: %s' % (rnd, i, kind))
            if kind == 'LOSS':
                break
            if kind == 'publish':
                flow.publish(qos=eng.int('qos', 0, 2) if params.get('qos0') else eng.int('qos', 1, 2))
            elif kind == 'advance':
                flow.advance(hi=100)
            else:
                c05.deliver_ack(flow, kind)
        c1 = flow.c
        pubs = [r for r in flow.reqs if r.kind == 'publish' and r.tr is not None and r.accepted()]
        before = dict((r.order, len(r.tr.fired)) for r in pubs)
        flow.lose(clean_close=True)
        ls = c1.lose_step
        if rnd > 0:
            eng.count('second-loss')
        if as_int(c1.clean) == 1:
            # (second round) this connection was opened with cleanStart=True: its loss is the subject of C11
            return flow.finish()
        for r in pubs:
            eng.check(len(r.tr.fired) == before[r.order], 'publish-fired-at-loss', 'a persistent-session loss fired a publish Deferred')
        carried = [r for r in pubs if not r.tr.fired]
        if any(r.tr.fired and r.tr.fired[0][2] is None and not any(p['type'] == 'PUBLISH' and all_eq(p['topic'], r.topic) is True for (s_, c_, p) in flow.all_packets())
               for r in pubs):
            eng.count('qos0-queued')
        stages = dict((r.order, stage_of(flow, r, ls + 1)) for r in carried)
        if not carried:
            eng.count('nothing-carried')
        # ---- the next protocol for the same address
        flow.open(connack=False, clean=eng.bool('clean-reconnect'))
        c2 = flow.c
        clean = c2.clean
        if params.get('newwindow') if rnd == 0 else params.get('newwindow2', 0):
            flow.set_window()
        early = None
        if params.get('early') if rnd == 0 else params.get('early2', 0):
            early = flow.publish(qos=eng.int('qos', 1, 2))
            eng.check(early.accepted(), 'early-publish-refused')
        if params.get('lost_before_connack') and rnd == 0:
            # the connection dies between CONNECT and CONNACK: whatever the session holds must survive a persistent one
            pend0 = [r for r in flow.reqs if r.kind == 'publish' and r.tr is not None and r.accepted() and not r.tr.fired]
            flow.lose(clean_close=False)
            if as_int(clean) == 1:
                return flow.finish()
            eng.count('lost-before-connack')
            for r in pend0:
                eng.check(not r.tr.fired, 'publish-fired-at-loss', 'the loss of a persistent connection that never got its CONNACK fired a publish Deferred',
                          sig='publish-fired-at-loss:before-connack')
            flow.open(connack=False, clean=False)
            c2 = flow.c
            clean = c2.clean
            carried = pend0
            stages = dict((r.order, stage_of(flow, r, len(w.steps))) for r in carried)
            early = None
        cs = flow.connack(eng.int('sp', 0, 1))
        pk = flow.packets(c2, cs)
        cleaned = as_int(clean) == 1
        if cleaned:
            # ---- the session is discarded: carried-over publishes fail with MQTTSessionCleared
            for r in carried:
                f = r.tr.fired
                eng.check(len(f) == 1 and not f[0][1] and isinstance(f[0][2].value, mps.MQTTSessionCleared), 'carried-over-not-cleared',
                          'carried-over publish (%s) %s after a clean reconnect' % (stages[r.order], 'still pending' if not f else 'fired otherwise'),
                          sig='carried-over-not-cleared:' + stages[r.order])
                eng.count('clean-reconnect.cleared')
            for (st, cc, p) in flow.all_packets([c2]):
                for r in carried:
                    if p['type'] == 'PUBLISH' and all_eq(p['topic'], r.topic) is True:
                        eng.check(False, 'cleared-but-sent', 'a publish of the discarded session was written on the clean connection', sig='cleared-but-sent:' + stages[r.order])
                    if p['type'] == 'PUBREL' and r.msgId is not None and eng.valid(p['msgId'] == r.msgId):
                        eng.check(False, 'cleared-but-sent', 'a PUBREL of the discarded session was written on the clean connection', sig='cleared-but-sent:pubrel')
            if early is not None:
                eng.count('early-publish.clean')
        else:
            # ---- resumption
            resent = []
            for r in carried:
                mine = [p for p in pk if p['type'] == 'PUBLISH' and all_eq(p['topic'], r.topic) is True]
                rel = [p for p in pk if p['type'] == 'PUBREL' and eng.valid(p['msgId'] == r.msgId)]
                stg = stages[r.order]
                eng.check(not r.tr.fired, 'resume-fired-deferred', 'the resumption fired a carried-over Deferred')
                if stg == 'sent':
                    eng.check(len(mine) == 1, 'unacked-publish-not-resent', 'unacknowledged PUBLISH re-sent %d times after the persistent CONNACK' % len(mine),
                              sig='unacked-publish-not-resent:%d' % len(mine))
                    for p in mine:
                        eng.check(p['dup'] == 1, 'resent-without-dup')
                        eng.check((p['msgId'] == r.msgId) & (p['qos'] == r.qos) & all_eq(p['payload'], r.payload), 'resent-content')
                    eng.check(not rel, 'pubrel-without-pubrec')
                    resent.append(r.order)
                    eng.count('resume.publish')
                elif stg == 'released':
                    eng.check(len(rel) == 1, 'pubrel-not-resent', 'PUBREL of a half-done QoS 2 exchange re-sent %d times' % len(rel), sig='pubrel-not-resent:%d' % len(rel))
                    eng.check(not mine, 'publish-after-pubrel', 'PUBLISH re-sent although its PUBREL stage was reached')
                    eng.count('resume.pubrel')
                else:
                    eng.count('resume.held-back')
                    for p in mine:
                        eng.check(p['dup'] == 0, 'first-transmission-dup')
                        eng.count('resume.released-by-window')
            order_on_wire = [r.order for p in pk if p['type'] == 'PUBLISH' for r in carried if stages[r.order] == 'sent' and all_eq(p['topic'], r.topic) is True]
            eng.check(order_on_wire == sorted(order_on_wire), 'resume-order', 'unacknowledged publishes re-sent out of their original order')
            # held-back messages are released as far as the window allows
            inflight = [r for r in carried if stages[r.order] == 'sent']
            allp = flow.all_packets([c2])
            sent_now = [r for r in carried + ([early] if early is not None else []) if r is not None and stages.get(r.order, 'new') in ('held', 'new')
                        and any(p['type'] == 'PUBLISH' and all_eq(p['topic'], r.topic) is True for (st, cc, p) in allp if st <= cs)]
            unsent = [r for r in carried + ([early] if early is not None else []) if r is not None and stages.get(r.order, 'new') in ('held', 'new')
                      and r not in sent_now]
            if sent_now:
                # ... and no further than that: a message is first transmitted only into a free slot
                eng.check(len(inflight) + len(sent_now) <= c2.window, 'released-beyond-window',
                          'after the persistent CONNACK %d inherited publishes are in flight and %d more were released although the window does not allow it' % (
                              len(inflight), len(sent_now)), sig='released-beyond-window')
            if unsent:
                eng.check(len(inflight) + len(sent_now) >= c2.window, 'held-back-not-released',
                          'after the persistent CONNACK %d publishes are in flight, window is larger, and %d accepted messages are still held back' % (
                              len(inflight) + len(sent_now), len(unsent)), sig='held-back-not-released')
            if early is not None:
                eng.count('early-publish.persistent')
        # ---- what was requested on this connection before its CONNACK is neither failed nor re-sent by the resumption
        if early is not None:
            eng.check(not early.tr.fired, 'early-publish-failed-by-connack', 'a publish issued before CONNACK was %s by the %s' % (
                'failed' if early.tr.fired and not early.tr.fired[0][1] else 'fired', 'session clean-up' if cleaned else 'resumption'),
                sig='early-publish-failed-by-connack:' + ('clean' if cleaned else 'persistent'))
            mine = [(st, p) for (st, cc, p) in flow.all_packets([c2]) if st <= cs and p['type'] == 'PUBLISH' and all_eq(p['topic'], early.topic) is True]
            eng.check(len(mine) <= 1, 'early-publish-resent', 'a publish issued before CONNACK was written %d times by the end of the CONNACK step' % len(mine),
                      sig='early-publish-resent:' + ('clean' if cleaned else 'persistent'))
            for (st, p) in mine:
                eng.check(p['dup'] == 0, 'early-publish-resent', 'a publish issued before CONNACK carries DUP', sig='early-publish-dup')
        if params.get('late') if rnd == 0 else params.get('late2', 0):
            late = flow.publish(qos=eng.int('qos', 1, 2))
            eng.check(late.accepted(), 'late-publish-refused')
            eng.count('late-publish')
    # ---- closing phase: a broker that acknowledges everything (each acknowledgement twice), or stays silent
    mode = params.get('broker', 'ack-all')
    c = flow.c
    if mode == 'ack-all':
        for rounds in range(12):
            todo = None
            for r in flow.reqs:
                if r.kind == 'publish' and r.tr is not None and not r.tr.fired and r.accepted():
                    allp = flow.all_packets([c])
                    if any(p['type'] == 'PUBREL' and eng.valid(p['msgId'] == r.msgId) for (st, cc, p) in allp):
                        todo = ('PUBCOMP', r)
                        break
                    if any(p['type'] == 'PUBLISH' and all_eq(p['topic'], r.topic) is True for (st, cc, p) in allp):
                        todo = ('PUBACK' if r.qos == 1 else 'PUBREC', r)
                        break
            if todo is None:
                break
            flow.rx(todo[0], msgId=todo[1].msgId)
            flow.rx(todo[0], msgId=todo[1].msgId)
        flow.advance(1000)
        for r in flow.reqs:
            if r.kind == 'publish' and r.tr is not None and r.accepted():
                eng.check(len(r.tr.fired) == 1, 'not-completed', 'publish Deferred (issued in step %d) fired %d times although the broker acknowledged everything' % (
                    r.step, len(r.tr.fired)), sig='not-completed:%d' % min(len(r.tr.fired), 2))
                if len(r.tr.fired) == 1 and r.tr.fired[0][1]:
                    eng.count('completed-after-resume')
    else:
        flow.advance(50)
        # its own timer is the only thing that may repeat a publish requested on this connection
    for r in flow.reqs:
        if r.tr is not None:
            eng.check(len(r.tr.fired) <= 1, 'fired-twice')
    return flow.finish()


HARNESSES = {'persist': h_persist}


def shards(tier):
    T = tier == 'thorough'
    out = []
    for profile in ('publisher', 'pubsubs'):
        for first in KINDS:
            for newwindow in (0, 1):
                for early in (0, 1):
                    for late in (0, 1):
                        for broker in ('ack-all', 'silent'):
                            if broker == 'silent' and (late or not early) and not T:
                                continue
                            out.append(('persist', {'profile': profile, 'rounds': 1, 'k': 3, 'first': first, 'newwindow': newwindow,
                                                    'early': early, 'late': late, 'broker': broker}))
        for first in KINDS:
            if first in ('advance', 'PUBCOMP') and not T:
                continue
            out.append(('persist', {'profile': profile, 'rounds': 1, 'k': 3, 'first': first, 'newwindow': 0, 'early': 1, 'late': 0,
                                    'broker': 'ack-all', 'lost_before_connack': True}))
            out.append(('persist', {'profile': profile, 'rounds': 1, 'k': 3, 'first': first, 'newwindow': 0, 'early': 1, 'late': 0,
                                    'broker': 'ack-all', 'qos0': True}))
        for first in ('publish', 'PUBACK'):
            for nw in (0, 1):
                out.append(('persist', {'profile': profile, 'rounds': 1, 'k': 3, 'first': first, 'newwindow': nw, 'early': 0, 'late': 0,
                                        'broker': 'ack-all', 'near_wrap': True}))
        for early in (0, 1):
            for early2 in (0, 1):
                for first in ('publish', 'PUBREC', 'LOSS'):
                    out.append(('persist', {'profile': profile, 'rounds': 2, 'k': 2, 'first': first, 'newwindow': 0, 'early': early, 'late': 0,
                                            'newwindow2': 0, 'early2': early2, 'late2': 0, 'broker': 'ack-all'}))
    return out


META = {
    'rule': 'persistent-session client, window symbolic; per round up to k free steps from {publish(QoS symbolic 1..2), PUBACK/PUBREC/PUBCOMP with symbolic identifier, '
            'advance(dt symbolic)} cut by a loss at any point; then a rebuilt protocol (optionally setWindowSize(symbolic)), connect(cleanStart symbolic), 0..1 publish before '
            'CONNACK, CONNACK(session byte symbolic), 0..1 publish after; finally a broker that acknowledges everything twice, or stays silent, and 1000 s',
    'bounds': {'quick': 'one round with k<=3, two rounds with k<=2; variants: the rebuilt connection is lost before its CONNACK; publishes of QoS 0..2; identifier counter placed at 65531..65535 (symbolic)', 'thorough': 'as quick, plus the silent-broker variant of every option combination and the near-wrap / lost-before-CONNACK / QoS 0 variants from every first step (a deeper first thorough sizing, k<=4, did not finish in 45 minutes)'},
    'stubs': ['fake transport with asynchronous loss', 'twisted task.Clock', 'jitter: fixed sequence'],
    'outside': ['more than two losses in a row', 'subscribe/unsubscribe across the loss (C07)'],
    'assumptions': ['acknowledgement types fit the exchange they may address'],
}

MANIFEST = {
    'text': 'Every prefix of every persistent-session history of up to k steps is cut by a loss (up to twice in a row); the rebuilt protocol connects with a symbolic cleanStart flag, publishes before and after its CONNACK, and the monitor - written from the statement - decides per carried-over request (held back / unacknowledged / PUBREL stage, classified from the logs) what must be on the wire in the CONNACK step (DUP, identifier, payload, order, PUBREL only), what the clean reconnect must fail with MQTTSessionCleared, and that requests of the new connection are neither failed nor re-sent.',
    'design_ref': '7 C12',
    'note': 'trusted: z3, engine, reference codec, Twisted.',
}
