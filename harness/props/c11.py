"""C11 - clean session: connection loss fails everything pending and nothing carries over"""
from .. import refcodec as ref
from ..flow import Flow
from ..world import all_eq, as_int, lnot
from . import c05

PROPERTY = 'C11'
BUDGET = {'quick': {'seconds': 1200, 'xreplay_every': 100}, 'thorough': {'seconds': 6000, 'xreplay_every': 2000}}
NONTRIVIAL = {'quick': ['failed-at-loss.publish', 'failed-at-loss.subscribe', 'failed-at-loss.unsubscribe', 'held-back-at-loss', 'pubrel-stage-at-loss',
                        'retransmitted-before-loss', 'loss.close', 'loss.reset', 'loss.abort', 'loss.keepalive', 'loss.disconnect', 'second-connection-clean', 'refused-with-early-publish']}

KINDS = ('publish', 'subscribe', 'unsubscribe', 'PUBACK', 'PUBREC', 'PUBCOMP', 'SUBACK', 'UNSUBACK', 'advance', 'LOSS')
LOSSES = ('close', 'reset', 'abort', 'keepalive', 'disconnect')


def do_loss(flow, how):
    eng, w = flow.eng, flow.w
    c = flow.c
    if how == 'abort':
        flow.rx_raw('CORRUPT', [0x00, 0x00], {})
        eng.check(c.t.abort_called >= 1, 'corrupt-packet-not-aborted')
    elif how == 'keepalive':
        # PINGRESP withheld for more than a keepalive period
        flow.advance(flow.keepalive + 1)
        eng.check(c.t.abort_called >= 1, 'keepalive-timeout-not-aborted')
    elif how == 'disconnect':
        flow.disconnect()
    flow.lose(clean_close=(how in ('close', 'disconnect')))
    eng.count('loss.' + how)


def h_clean(eng, params):
    how = params['loss']
    profile = params['profile']
    flow = Flow(eng, profile, clean=True, keepalive=5 if how == 'keepalive' else 0)
    flow.open()
    flow.set_window()
    w = flow.w
    lost = False
    for i in range(params['k']):
        kinds = [k for k in KINDS if not (profile == 'publisher' and k in ('subscribe', 'unsubscribe', 'SUBACK', 'UNSUBACK'))
                 and not (profile == 'subscriber' and k in ('publish', 'PUBACK', 'PUBREC', 'PUBCOMP'))]
        forced = params.get('first') if i == 0 else None
        if forced is not None and forced not in kinds:
            return None
        kind = forced if forced is not None else eng.choose(kinds, 'step')
        eng.note('free step %d: %s' % (i, kind))
        if kind == 'LOSS':
            break
        if kind == 'publish':
            flow.publish()
        elif kind == 'subscribe':
            flow.subscribe('str')
        elif kind == 'unsubscribe':
            flow.unsubscribe('str')
        elif kind == 'advance':
            flow.advance(hi=4 if how == 'keepalive' else 100)
        elif kind in ('SUBACK', 'UNSUBACK'):
            flow.rx(kind)
        else:
            c05.deliver_ack(flow, kind)
    c1 = flow.c
    if c1.closing or c1.lost:
        return None      # (keepalive run) the connection already ended on its own: other shards cover the loss kinds
    pend = [r for r in flow.reqs if r.tr is not None and r.accepted() and not r.tr.fired]
    pk1 = flow.all_packets([c1])
    for r in pend:
        if r.kind == 'publish':
            sent = [p for (st, cc, p) in pk1 if p['type'] == 'PUBLISH' and all_eq(p['topic'], r.topic) is True]
            if not sent:
                eng.count('held-back-at-loss')
            if len(sent) > 1:
                eng.count('retransmitted-before-loss')
            if any(p['type'] == 'PUBREL' and eng.valid(p['msgId'] == r.msgId) for (st, cc, p) in pk1):
                eng.count('pubrel-stage-at-loss')
    do_loss(flow, how)
    ls = c1.lose_step
    reason = c1.reason
    for r in pend:
        f = r.tr.fired
        eng.check(len(f) == 1 and f[0][0] == ls and not f[0][1], 'pending-not-failed-at-loss',
                  'pending %s Deferred (issued in step %d) %s when the loss was reported' % (r.kind, r.step, 'did not fail' if not f else 'fired %s' % [(s, ok) for (s, ok, v) in f]),
                  sig='pending-not-failed-at-loss:' + r.kind)
        if len(f) == 1 and not f[0][1]:
            eng.check(f[0][2] is reason, 'failed-with-other-reason', '%s Deferred failed with %s instead of the reason of the loss' % (r.kind, type(f[0][2].value).__name__),
                      sig='failed-with-other-reason:' + r.kind)
            eng.count('failed-at-loss.' + r.kind)
    # ---- the next connection of the same factory to the same address
    flow.keepalive = 0
    flow.open(clean=True)
    c2 = flow.c
    newpub = None
    newsub = None
    if profile != 'subscriber':
        newpub = flow.publish(qos=0)
    if profile != 'publisher':
        newsub = flow.subscribe('str', qos=1)
        flow.rx('SUBACK', msgId=newsub.msgId)
    flow.advance(50)
    flow.advance(5000)
    for r in flow.reqs:
        if r.conn is c1 and r.tr is not None:
            eng.check(len(r.tr.fired) <= 1, 'fired-again-later', '%s Deferred of the lost connection fired %d times' % (r.kind, len(r.tr.fired)))
            if r in pend:
                eng.check(all(s == ls for (s, ok, v) in r.tr.fired), 'fired-again-later')
    pk2 = flow.all_packets([c2])
    want = ['CONNECT'] + (['PUBLISH'] if newpub is not None else []) + (['SUBSCRIBE'] if newsub is not None else [])
    got = [p['type'] for (st, cc, p) in pk2]
    eng.check(got == want, 'carried-over', 'the next clean connection wrote %s, requested only %s' % (got, want), sig='carried-over')
    for (st, cc, p) in pk2:
        if p['type'] == 'PUBLISH' and newpub is not None:
            eng.check(all_eq(p['topic'], newpub.topic) is True, 'carried-over', 'a PUBLISH of the lost connection was written on the next one', sig='carried-over')
    # nothing written to the lost transport after the loss
    late = [e for e in w.events if e.kind == 'write' and e.conn is c1 and e.step > ls]
    eng.check(not late, 'write-after-loss')
    eng.count('second-connection-clean')
    return flow.finish()


def h_refused(eng, params):
    """requests issued before a CONNACK that then refuses the connection are pending when the broker closes it"""
    flow = Flow(eng, params['profile'], clean=True)
    w = flow.w
    flow.open(connack=False)
    c1 = flow.c
    n = eng.choose((1, 2), 'early-publishes')
    for j in range(n):
        flow.publish(qos=eng.int('qos', 1, 2))
    flow.connack(0, eng.int('rc', 1, 255))
    eng.count('refused-with-early-publish')
    if eng.choose(2, 'advance-before-close'):
        flow.advance(hi=20)
    pend = [r for r in flow.reqs if r.tr is not None and r.accepted() and not r.tr.fired]
    flow.lose(clean_close=True)
    ls = c1.lose_step
    for r in pend:
        f = r.tr.fired
        eng.check(len(f) == 1 and f[0][0] == ls and not f[0][1], 'pending-not-failed-at-loss',
                  'publish issued before a refusing CONNACK %s when the connection was lost' % ('did not fail' if not f else 'fired otherwise'),
                  sig='pending-not-failed-at-loss:publish:refused')
        if len(f) == 1 and not f[0][1]:
            eng.check(f[0][2] is c1.reason, 'failed-with-other-reason', sig='failed-with-other-reason:publish:refused')
    flow.open(clean=True)
    c2 = flow.c
    newpub = flow.publish(qos=0)
    flow.advance(50)
    flow.advance(5000)
    got = [p['type'] for (st, cc, p) in flow.all_packets([c2])]
    eng.check(got == ['CONNECT', 'PUBLISH'], 'carried-over', 'the next clean connection wrote %s' % got, sig='carried-over')
    late = [e for e in w.events if e.kind == 'write' and e.conn is c1 and e.step > ls]
    eng.check(not late, 'write-after-loss')
    return flow.finish()


HARNESSES = {'clean': h_clean, 'refused': h_refused}


def shards(tier):
    T = tier == 'thorough'
    out = []
    for profile in ('publisher', 'subscriber', 'pubsubs'):
        for loss in LOSSES:
            for first in KINDS:
                out.append(('clean', {'profile': profile, 'loss': loss, 'k': 5 if T else 3, 'first': first}))
    for profile in ('publisher', 'pubsubs'):
        out.append(('refused', {'profile': profile}))
    return out


META = {
    'rule': 'clean-session client, window symbolic; up to k free steps from {publish(QoS symbolic), subscribe, unsubscribe, PUBACK/PUBREC/PUBCOMP/SUBACK/UNSUBACK with '
            'symbolic identifier, advance(dt symbolic)}; the loss is one of the step kinds, so every prefix is cut; five loss kinds; then a rebuilt protocol, clean '
            'connect, CONNACK, one QoS 0 publish, one subscribe (acknowledged), 5050 s',
    'bounds': {'quick': 'k<=3 steps before the loss; 3 profiles x 5 loss kinds; plus: 1..2 publishes before a CONNACK with return code 1..255 (symbolic), then the broker closes', 'thorough': 'k<=5'},
    'stubs': ['fake transport with asynchronous loss', 'twisted task.Clock', 'jitter: fixed sequence'],
    'outside': ['histories longer than k steps before the loss', 'events between abort()/disconnect() and the loss report (C18)', 'keepalive periods other than 5 s for the keepalive-timeout loss'],
    'assumptions': ['acknowledgement types fit the exchange they may address'],
}

MANIFEST = {
    'text': 'The position of the loss is part of the symbolic history: every prefix of every history of up to k steps (requests of all kinds in every stage: held back, sent, half-acknowledged, retransmitted) is cut by each of five loss kinds; the monitor demands that every pending Deferred fails exactly once in the loss step with the reason object of the loss, never again, and that the next clean connection of the same factory writes exactly CONNECT plus what is requested on it during 5050 s of virtual time.',
    'design_ref': '7 C11',
    'note': 'trusted: z3, engine, reference codec, Twisted.',
}
