"""C14 - operations are honoured only in the states and profiles that allow them"""
from fractions import Fraction
from .. import refcodec as ref
from .. import scen
from ..world import World, mkbytearray, blist, cplist, all_eq, as_int, check_no_exceptions, parse_writes

PROPERTY = 'C14'
BUDGET = {'quick': {'seconds': 900, 'xreplay_every': 3}, 'thorough': {'seconds': 3000, 'xreplay_every': 3}}
NONTRIVIAL = {'quick': ['op.allowed', 'op.refused', 'rx.ignored', 'rx.effect']}

STATES = ('idle', 'connecting', 'connected', 'idle-after-loss', 'idle-after-refused', 'idle-after-rejected-connect-V', 'idle-after-rejected-connect-T')
OPS = ('connect', 'disconnect', 'publish', 'subscribe', 'unsubscribe')
MARK = 0x5A    # topic character used only by the operation under test


def jitter():
    return [Fraction(k % 15 + 1, 16) for k in range(256)]


def reach(eng, profile, state, busy):
    """protocol of `profile` in `state` through real API calls and packets"""
    base = {'idle': 'idle', 'connecting': 'connecting', 'connected': 'connected',
            'idle-after-loss': 'connected', 'idle-after-refused': 'connecting',
            'idle-after-rejected-connect-V': 'idle', 'idle-after-rejected-connect-T': 'idle'}[state]
    if busy:
        w, c, req = scen.busy_prefix(eng, profile, base, jitter_pool=jitter())
    else:
        w = World(eng, profile, jitter_pool=jitter())
        c = w.build()
        req = {}
        if base != 'idle':
            w.begin_step('connect')
            c.connect_tr = scen.connect(w, c)
            if base == 'connected':
                w.begin_step('connack')
                scen.connack(w, c)
    if state == 'idle-after-loss':
        w.begin_step('lose')
        w.lose(c)
        w.begin_step('notify')
        w.advance(1)
    elif state.startswith('idle-after-rejected-connect'):
        # a connect() whose arguments are rejected (failed Deferred, or an exception for a wrongly typed
        # string) leaves the protocol idle: nothing was written, nothing is allowed yet
        w.begin_step('rejected-connect')
        n0 = len(w.events)
        if state.endswith('V'):
            w.api(c, 'connect', 'bad-connect', scen.client_id(eng), keepalive=eng.int('badka', 65536, 10 ** 6))
        else:
            w.api(c, 'connect', 'bad-connect', scen.client_id(eng), willTopic=scen.topic(eng), willMessage=b'gone')
        eng.check(not [e for e in w.events[n0:] if e.kind == 'write'], 'rejected-connect-wrote')
        w.events = [e for e in w.events if e.kind != 'exc']
    elif state == 'idle-after-refused':
        w.begin_step('refusing-connack')
        scen.connack(w, c, 0, eng.int('rc', 1, 255))
    return w, c, req


def allowed(profile, state, op):
    """the table of the statement"""
    pub = profile in ('publisher', 'pubsubs')
    sub = profile in ('subscriber', 'pubsubs')
    if state.startswith('idle-after-rejected-connect'):
        state = 'idle'
    if op == 'connect':
        return state == 'idle'
    if op == 'disconnect':
        return state == 'connected'
    if op == 'publish':
        return pub and state in ('connecting', 'connected')
    if op in ('subscribe', 'unsubscribe'):
        return sub and state == 'connected'
    raise ValueError(op)


def belongs(profile, state, kind):
    pub = profile in ('publisher', 'pubsubs')
    sub = profile in ('subscriber', 'pubsubs')
    if state.startswith('idle-after-rejected-connect'):
        state = 'idle'
    if kind == 'CONNACK':
        return state == 'connecting'
    if state != 'connected':
        return False
    if kind == 'PINGRESP':
        return True
    if kind in ('SUBACK', 'UNSUBACK', 'PUBREL') or kind.startswith('PUBLISH'):
        return sub
    return pub      # PUBACK PUBREC PUBCOMP


def has_mark(w, c, since):
    """does any packet written since event index `since` mention the marker topic"""
    for e in w.events[since:]:
        if e.kind == 'write':
            b = blist(e.a)
            for i in range(len(b) - 2):
                if b[i] == 0 and b[i + 1] == 1 and b[i + 2] == MARK:
                    return True
    return False


def h_op(eng, params):
    import mqtt.error as merr
    profile, state, op = params['profile'], params['state'], params['op']
    if op == 'connect' and state in ('idle-after-loss', 'idle-after-refused'):
        return None
    w, c, req = reach(eng, profile, state, params.get('busy', False))
    st = w.begin_step('op:' + op)
    mark = len(w.events)
    timers_before = list(w.pending_timers())
    ok = allowed(profile, state, op)
    mtopic = scen.topic(eng, MARK)
    tr = None
    exc = None
    if op == 'connect':
        if ok:
            tr = scen.connect(w, c)
        else:
            # a stray connect() with settings that differ from the live connection's (clean session, 3.1.1)
            tr = scen.connect(w, c, 0, False, 31)
    elif op == 'disconnect':
        r, exc = w.call(c, 'disconnect')
    elif op == 'publish':
        qos = eng.int('qos', 0, 2)
        tr = w.api(c, 'publish', 'op', mtopic, mkbytearray(eng, [7]), qos=qos)
    elif op == 'subscribe':
        tr = w.api(c, 'subscribe', 'op', mtopic, eng.int('qos', 0, 2))
    elif op == 'unsubscribe':
        tr = w.api(c, 'unsubscribe', 'op', mtopic)
    w.after_api()
    writes = [e for e in w.events[mark:] if e.kind == 'write']
    if ok:
        eng.count('op.allowed')
        if op == 'disconnect':
            eng.check(exc is None, 'allowed-op-raised', 'disconnect() raised %s while connected' % type(exc).__name__)
            eng.check(len(writes) == 1 and c.t.lose_called == 1, 'disconnect-effect')
        else:
            eng.check(tr is not None, 'allowed-op-raised')
            if tr is not None:
                failed = bool(tr.fired) and not tr.fired[0][1]
                eng.check(not failed, 'allowed-op-failed', '%s() failed with %s in %s/%s' % (
                    op, type(tr.fired[0][2].value).__name__ if failed else '', profile, state), sig='allowed-op-failed:%s' % op)
                if op == 'publish' and state == 'connecting' and params.get('busy'):
                    pass    # window may hold it back
                elif op == 'publish' and not (tr.fired and tr.fired[0][1]) and params.get('busy') and state == 'connected':
                    pass
                else:
                    eng.check(len(writes) >= 1, 'allowed-op-wrote-nothing', sig='allowed-op-wrote-nothing:%s' % op)
    else:
        eng.count('op.refused')
        if op == 'disconnect':
            eng.check(isinstance(exc, merr.MQTTStateError), 'refused-disconnect', 'disconnect() in %s/%s: %s' % (profile, state, type(exc).__name__))
            # the exception is the specified behaviour, not an escape
            w.events = [e for e in w.events if not (e.kind == 'exc' and e.a[1] is exc)]
        else:
            eng.check(tr is not None and len(tr.fired) == 1 and not tr.fired[0][1] and isinstance(tr.fired[0][2].value, merr.MQTTStateError),
                      'refused-op-outcome', '%s() in %s/%s must fail with MQTTStateError' % (op, profile, state),
                      sig='refused-op-outcome:%s:%s:%s' % (op, profile, state))
        eng.check(not writes, 'refused-op-wrote', '%s() in %s/%s wrote %d packet(s)' % (op, profile, state, len(writes)),
                  sig='refused-op-wrote:%s:%s:%s' % (op, profile, state))
        eng.check(not c.t.lose_called and not c.t.abort_called, 'refused-op-closed')
        new_timers = [t for t in w.pending_timers() if t not in timers_before]
        eng.check(not new_timers, 'refused-op-timer', '%s() in %s/%s started a timer' % (op, profile, state),
                  sig='refused-op-timer:%s:%s:%s' % (op, profile, state))
        # nothing of the refused operation shows up later either
        if state == 'idle' or state.startswith('idle-after-rejected-connect'):
            w.begin_step('connect-after')
            scen.connect(w, c)
            w.begin_step('connack-after')
            scen.connack(w, c)
        elif state == 'connecting':
            w.begin_step('connack-after')
            scen.connack(w, c)
        w.begin_step('later')
        w.advance(500)
        eng.check(not has_mark(w, c, mark), 'refused-op-leaked', 'a packet of the refused %s() was written later' % op,
                  sig='refused-op-leaked:%s:%s:%s' % (op, profile, state))
        if op == 'connect' and state == 'connected':
            # the refused call changed nothing: retransmissions still follow protocol 3.1.1, and the (clean) session still
            # fails its pending requests when the connection is lost
            pk, perr = parse_writes(w, c, v31=False)
            eng.check(pk is not None, 'refused-op-reconfigured', 'after a refused connect() the client wrote a packet that is malformed under 3.1.1: %s' % perr,
                      sig='refused-op-reconfigured:wire')
            w.begin_step('lose-after')
            w.lose(c)
            for tag, tr_ in req.items():
                if tr_ is not None and tag != 'connect':
                    eng.check(len(tr_.fired) == 1, 'refused-op-reconfigured', 'after a refused connect(cleanStart=False) the clean session kept %s pending at the loss' % tag,
                              sig='refused-op-reconfigured:session')
    check_no_exceptions(w)
    return w.trace()


def h_rx(eng, params):
    profile, state, kind = params['profile'], params['state'], params['kind']
    w, c, req = reach(eng, profile, state, True)
    pkt, fields = scen.broker_packet(eng, kind, ntopic=1, npayload=1, ngranted=1)
    w.begin_step('rx:' + kind)
    mark = len(w.events)
    timers_before = list(w.pending_timers())
    delivered = w.rx_list(c, pkt)
    if not delivered:
        return None
    evs = [e for e in w.events[mark:]]
    if not belongs(profile, state, kind):
        eng.count('rx.ignored')
        eng.check(not evs, 'stray-packet-effect', '%s in %s/%s caused %s' % (kind, profile, state, [e.kind for e in evs]),
                  sig='stray-packet-effect:%s:%s:%s' % (kind, profile, state))
        new_timers = [t for t in w.pending_timers() if t not in timers_before]
        gone = [t for t in timers_before if t not in w.pending_timers()]
        eng.check(not new_timers and not gone, 'stray-packet-timers', sig='stray-packet-timers:%s:%s:%s' % (kind, profile, state))
    else:
        if evs or [t for t in timers_before if t not in w.pending_timers()]:
            eng.count('rx.effect')
    check_no_exceptions(w)
    return w.trace()


HARNESSES = {'op': h_op, 'rx': h_rx}


def shards(tier):
    T = tier == 'thorough'
    out = []
    for profile in ('publisher', 'subscriber', 'pubsubs'):
        for state in STATES:
            for op in OPS:
                for busy in (False, True):
                    out.append(('op', {'profile': profile, 'state': state, 'op': op, 'busy': busy}))
            for kind in scen.BROKER_KINDS:
                out.append(('rx', {'profile': profile, 'state': state, 'kind': kind}))
    return out


META = {
    'rule': 'grid profile x state x (API operation | inbound packet kind); per cell one path per branch class of the symbolic data '
            '(QoS, identifiers possibly equal to those of pending requests, flags, return code); non-trivial = cells per outcome class (counters)',
    'bounds': {'quick': '3 profiles x {idle, connecting, connected, idle-after-loss, idle-after-refused-CONNACK(rc 1..255 symbolic), idle after a connect() rejected for its arguments (ValueError kind, TypeError kind)} x {connect, disconnect, '
                        'publish(QoS symbolic), subscribe(QoS symbolic), unsubscribe} with and without one pending request of every kind, and x 11 broker packet kinds '
                        'with symbolic fields against the busy pre-state; refused operations are followed by CONNACK / 500 s to show nothing leaks',
               'thorough': 'same grid (it is complete for single steps)'},
    'stubs': ['fake transport', 'twisted task.Clock', 'jitter: fixed sequence'],
    'outside': ['connect() on a protocol whose connection has already been lost or refused (its output is the subject of C18)',
                'sequences of more than one operation after the pre-state', 'broker-bound and reserved packet types (C16)'],
    'assumptions': ['the expected-effect table is taken from the property statement, not from the state classes'],
}

MANIFEST = {
    'text': 'The complete single-step grid profile x protocol state x (API operation | inbound broker packet kind) is executed on the real state objects, with QoS values, identifiers, flags and return codes symbolic (so inbound identifiers may alias pending requests). The expected outcome comes from a table written from the statement; refused operations must fail with MQTTStateError, write nothing, start no timer and leak nothing later; stray packets must leave an empty log.',
    'design_ref': '7 C14',
    'note': 'trusted: z3, engine, reference codec, Twisted Clock/Deferred.',
}
