"""C04 - connect() handshake outcome and connection-loss notification, exactly once each"""
from fractions import Fraction
from symex import env as senv
from .. import refcodec as ref
from .. import scen
from ..world import World, mkbytes, blist, all_eq, as_int, check_no_exceptions, parse_writes

PROPERTY = 'C04'
BUDGET = {'quick': {'seconds': 1200, 'xreplay_every': 50}, 'thorough': {'seconds': 6000, 'xreplay_every': 500}}
NONTRIVIAL = {'quick': ['accepted', 'refused', 'timeout', 'loss-while-connecting', 'loss-while-connected', 'second-connect-rejected',
                        'duplicate-connack', 'onDisconnection', 'disconnect']}

KINDS = ('connack', 'advance', 'lose', 'connect-again', 'publish', 'subscribe', 'disconnect')


def err():
    return senv.mqtt.error if hasattr(senv.mqtt, 'error') else __import__('mqtt.error').error


def h_handshake(eng, params):
    import mqtt.error as merr
    profile = params['profile']
    # retry timers are not the subject here: fixed jitter sequence
    w = World(eng, profile, jitter_pool=[Fraction(k % 15 + 1, 16) for k in range(256)])
    c = w.build()
    ka = params['keepalive']
    # symbolic keepalive: the whole range, but then the handshake never succeeds (the keepalive loop of an
    # accepted connection needs a concrete period; accepted handshakes run with the listed concrete values)
    keepalive = eng.int('keepalive', 1, 65535) if ka == 'sym' else ka
    clean = eng.bool('clean')
    # ---- nothing before connect()
    eng.check(not w.step_events(kind='write'), 'write-before-connect')
    w.begin_step('connect')
    tr = scen.connect(w, c, keepalive, clean, params['version'])
    eng.check(tr is not None, 'connect-raised')
    if tr is None:
        return w.trace()
    pk, perr = parse_writes(w, c, step=len(w.steps) - 1, v31=(params['version'] == 31))
    eng.check(pk is not None and len(pk) == 1 and pk[0]['type'] == 'CONNECT', 'one-CONNECT-per-connect', 'writes of connect(): %r %r' % (pk, perr))
    if pk and pk[0]['type'] == 'CONNECT':
        eng.check(pk[0]['keepalive'] == keepalive, 'CONNECT.keepalive')
        eng.check(pk[0]['clean'] == as_int(clean), 'CONNECT.clean')
        eng.check(pk[0]['level'] == (3 if params['version'] == 31 else 4), 'CONNECT.level')
    eng.check(not tr.fired, 'fired-on-return')
    # ---- reference model of the handshake, written from the statement
    state = 'connecting'
    t0 = w.now()
    deadline = t0 + (keepalive if keepalive != 0 else 10)
    expect = None          # expected outcome of the Deferred once decided: ('ok', session) / ('refused',) / ('timeout',)
    lost = False
    nloss = 0
    pubs = []
    subs = []
    for i in range(params['k']):
        kinds = [k for k in KINDS if not (lost and k in ('connack', 'lose', 'connect-again', 'publish', 'subscribe', 'disconnect'))
                 and not (c.closing and k == 'connack')
                 and not (k == 'publish' and profile == 'subscriber') and not (k == 'subscribe' and profile == 'publisher')
                 and not (k in ('subscribe', 'disconnect') and state != 'connected')]
        if state == 'refused-wait-close':
            kinds = ['lose']          # [MQTT-3.2.2-5]: the broker closes after a refusing CONNACK
        kind = params['first'] if (i == 0 and params.get('first') in kinds) else eng.choose(kinds, 'step')
        st = w.begin_step(kind)
        eng.note('step %d: %s' % (i, kind))
        mark = len(w.events)
        if kind == 'connack':
            sp = eng.int('sp', 0, 255)
            rc = eng.int('rc', 1 if ka == 'sym' else 0, 255)
            w.rx_list(c, [0x20, 2, sp, rc])
            if state == 'connecting':
                if rc == 0:
                    expect = ('ok', sp % 2)
                    state = 'connected'
                    eng.count('accepted')
                else:
                    expect = ('refused',)
                    state = 'refused-wait-close'
                    eng.count('refused')
            else:
                eng.count('duplicate-connack')
                # a CONNACK outside the handshake has no effect
                eng.check(not [e for e in w.events[mark:] if e.kind in ('fire', 'write', 'abort', 'lose')], 'stray-connack-effect')
        elif kind == 'advance':
            dt = eng.real('dt', 0, 100000 if ka == 'sym' else (100 if ka and ka < 60 else 1000))
            w.advance(dt)
            if expect is None and w.now() >= deadline:
                expect = ('timeout',)
                eng.count('timeout')
                eng.check(c.t.abort_called >= 1 or lost, 'timeout-closes-transport', 'CONNACK timeout did not abort the transport')
                if state == 'connecting':
                    state = 'timed-out'
        elif kind == 'lose':
            pending_pubs = [ptr for ptr in pubs if not ptr.fired]
            pending_subs = [x for x in subs if not x.fired]
            reason = w.lose(c, clean=bool(eng.choose(2, 'clean-close')))
            lost = True
            nloss += 1
            eng.count('loss-while-' + ('connecting' if state == 'connecting' else 'connected' if state == 'connected' else 'other'))
            eng.check(getattr(c.p, 'state', None) is getattr(c.p, 'IDLE', None), 'idle-after-loss')
            state = 'idle' if state != 'connecting' else 'idle-connecting-pending'
            # pending publishes of a clean session fail now, with the reason of the loss
            for x in pending_subs:
                eng.check(len(x.fired) == 1 and not x.fired[0][1] and x.fired[0][2] is reason, 'subscribe-failed-before-notification',
                          'a subscribe pending at the loss was not failed with its reason')
            for ptr in pending_pubs:
                if as_int(clean) == 1:
                    eng.check(len(ptr.fired) == 1 and not ptr.fired[0][1] and ptr.fired[0][2] is reason, 'publish-failed-before-notification')
        elif kind == 'connect-again':
            tr2 = scen.connect(w, c, 0, True, params['version'])
            if state in ('connecting', 'connected', 'timed-out') and not lost:
                eng.check(tr2 is not None and len(tr2.fired) == 1 and not tr2.fired[0][1]
                          and isinstance(tr2.fired[0][2].value, merr.MQTTStateError), 'second-connect-rejected')
                eng.check(not [e for e in w.events[mark:] if e.kind == 'write'], 'second-connect-wrote')
                eng.count('second-connect-rejected')
            else:
                # on a protocol whose connection is gone the call is outside this property (C18 covers its output)
                pass
        elif kind == 'subscribe':
            # an established-session request pending at the loss
            str_ = w.api(c, 'subscribe', 'sub', scen.topic(eng), 1)
            if str_ is not None and not str_.fired:
                subs.append(str_)
        elif kind == 'disconnect':
            r_, e_ = w.call(c, 'disconnect')
            eng.check(e_ is None, 'disconnect-raised')
            eng.count('disconnect')
            state = 'disconnecting'
        elif kind == 'publish':
            ptr = w.api(c, 'publish', 'pub', scen.topic(eng), mkbytes(eng, [1]) if False else scen.mkbytearray(eng, [1]), qos=1)
            if ptr is not None and not ptr.fired:
                pubs.append(ptr)
        w.after_api()
        # the Deferred fires exactly when the model decides, never otherwise
        if expect is None:
            eng.check(not tr.fired, 'fired-without-cause', 'connect Deferred fired in step %s' % kind)
        else:
            eng.check(len(tr.fired) == 1, 'fired-exactly-once', 'connect Deferred fired %d times (expected %r)' % (len(tr.fired), expect),
                      sig='fired-exactly-once:%s:%d' % (expect[0], len(tr.fired)))
    # ---- a transport asked to close does close
    if not lost and (c.t.lose_called or c.t.abort_called):
        st = w.begin_step('lose')
        pending_subs = [x for x in subs if not x.fired]
        reason = w.lose(c, clean=bool(c.t.lose_called))
        lost = True
        nloss += 1
        eng.check(getattr(c.p, 'state', None) is getattr(c.p, 'IDLE', None), 'idle-after-loss')
        for x in pending_subs:
            eng.check(len(x.fired) == 1 and not x.fired[0][1] and x.fired[0][2] is reason, 'subscribe-failed-before-notification',
                      'a subscribe pending at the loss was not failed with its reason')
    # ---- run the clock out: timeout must have happened if nothing else did
    w.begin_step('run-out')
    w.advance(keepalive + 11)
    w.begin_step('run-out-2')
    w.advance(1000)
    if expect is None:
        expect = ('timeout',)
        eng.count('timeout')
    eng.check(len(tr.fired) == 1, 'fired-exactly-once', 'connect Deferred fired %d times at the end (expected %r)' % (len(tr.fired), expect),
              sig='fired-exactly-once:end:%s:%d' % (expect[0], len(tr.fired)))
    if len(tr.fired) == 1:
        s, ok, v = tr.fired[0]
        if expect[0] == 'ok':
            eng.check(ok, 'outcome-accepted', 'return code 0 but Deferred failed with %s' % (type(getattr(v, 'value', v)).__name__,))
            if ok:
                eng.check(as_int(v) == expect[1], 'outcome-session-present')
        elif expect[0] == 'refused':
            eng.check((not ok) and isinstance(v.value, merr.MQTTStateError), 'outcome-refused', 'non-zero return code: Deferred outcome %s' % (type(getattr(v, 'value', v)).__name__,))
        else:
            eng.check((not ok) and isinstance(v.value, merr.MQTTTimeoutError), 'outcome-timeout', 'no CONNACK in time: Deferred outcome %s' % (type(getattr(v, 'value', v)).__name__,))
    # ---- exactly one CONNECT over the connection
    pk, perr = parse_writes(w, c, v31=(params['version'] == 31))
    if pk is not None:
        eng.check(len([p for p in pk if p['type'] == 'CONNECT']) == 1, 'exactly-one-CONNECT')
    # ---- loss notification
    nd = [e for e in w.events if e.kind == 'onDisconnection']
    eng.check(len(nd) == nloss, 'onDisconnection-once-per-loss', '%d notifications for %d losses' % (len(nd), nloss))
    if nloss:
        eng.count('onDisconnection')
        eng.check(all(e.a is c.reason for e in nd), 'onDisconnection-reason')
    check_no_exceptions(w)
    return w.trace()


HARNESSES = {'handshake': h_handshake}


def shards(tier):
    T = tier == 'thorough'
    out = []
    for profile in ('publisher', 'subscriber', 'pubsubs'):
        for version in (31, 311):
            for first in KINDS:
                if first == 'publish' and profile == 'subscriber':
                    continue
                for ka in (('sym', 0, 5, 65535) if T else ('sym', 0, 5)):
                    out.append(('handshake', {'profile': profile, 'version': version, 'k': 5 if T else 3, 'first': first, 'keepalive': ka}))
    return out


META = {
    'rule': 'history = connect(keepalive, clean symbolic) followed by k free steps; one path per feasible combination of step kinds and of the '
            'branch classes of their symbolic data (return code, session byte, elapsed time vs. deadline); non-trivial = counters accepted, refused, timeout, losses, rejected second connect',
    'bounds': {'quick': 'profiles x versions; keepalive symbolic 1..65535 (refused / timed-out / lost handshakes) and 0, 5 (all outcomes), clean flag, CONNACK session byte 0..255 and return code 0..255, advance symbolic in 0..100000 s (0..100 s when the keepalive loop can run with a period of 5 s, 0..1000 s otherwise); '
                        'k=3 free steps from {CONNACK, advance, loss (clean/unclean), second connect(), QoS1 publish, subscribe, disconnect()}; then keepalive+11 s and 1000 s',
               'thorough': 'k=5'},
    'stubs': ['fake transport with asynchronous loss', 'twisted task.Clock (exact reals)', 'jitter symbolic in [0,1)'],
    'outside': ['accepted handshakes with keepalive other than 0, 5 (thorough: 0, 5, 65535)', 'jitter other than a fixed sequence', 'histories longer than k free steps', 'connect() on a protocol object whose connection is already lost', 'float rounding of time'],
    'assumptions': ['after a refusing CONNACK the broker closes the connection before any further API call [MQTT-3.2.2-5]',
                    'no bytes are delivered after the client aborted or the loss was reported'],
}

MANIFEST = {
    'text': 'All histories of connect() followed by up to k free steps (CONNACK with symbolic session byte and return code, symbolic time advance, loss, second connect, publish) are executed on the real state machine with the real Twisted Clock; a reference model of the handshake written from the statement decides when and how the Deferred must fire, and z3 decides every comparison for all 256 return codes, all keepalives and all elapsed times of the path class.',
    'design_ref': '7 C04',
    'note': 'trusted: z3, engine, reference codec, Twisted Clock/Deferred; environment model of DESIGN.md section 3.',
}
