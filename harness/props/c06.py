"""C06 - inbound PUBLISH: faithful delivery, QoS 2 exactly once, every packet answered"""
from .. import refcodec as ref
from ..flow import Flow
from ..world import all_eq, as_int, lnot, mkstr, cplist, blist

PROPERTY = 'C06'
BUDGET = {'quick': {'seconds': 1200, 'xreplay_every': 50}, 'thorough': {'seconds': 6000, 'xreplay_every': 1000}}
NONTRIVIAL = {'quick': ['qos0', 'qos1', 'qos2.stored', 'qos2.delivered', 'qos2.repeat-publish', 'pubrel.unknown', 'pubrel.repeat', 'qos3',
                        'reconnect.persistent', 'reconnect.clean', 'multibyte-topic', 'delivered-after-reconnect', 'qos2.id-reused-after-clean']}

KINDS = ('PUBLISH', 'PUBREL', 'reconnect')


def rx_publish(flow, params):
    eng = flow.eng
    qosbits = eng.int('qosbits', 0, 3)
    dup = eng.int('dup', 0, 1)
    retain = eng.int('retain', 0, 1)
    nt = params.get('ntopic', 1)
    npl = params.get('npayload', 1)
    if params.get('vary'):
        nt = eng.choose((1, 2), 'ntopic')
        npl = eng.choose((0, 1, 2), 'npayload')
    # full Unicode range in the first `rich` PUBLISH steps of a history (9 decoder classes each), ASCII afterwards
    flow.npublish = getattr(flow, 'npublish', 0) + 1
    if flow.npublish <= params.get('rich', 1):
        cps = [eng.int('tc', 0, 0x10FFFF) for _ in range(nt)]
        for cp in cps:
            eng.assume((cp < 0xD800) | (cp > 0xDFFF))
    else:
        cps = [eng.int('tc', 0x20, 0x7E) for _ in range(nt)]
    pl = [eng.int('pb', 0, 255) for _ in range(npl)]
    body = ref.enc_string(mkstr(eng, cps))
    mid = None
    if qosbits != 0:
        mid = eng.int('mid', 0, 65535)
        body = body + ref.enc_u16(mid)
    else:
        eng.assume(dup == 0)        # [MQTT-3.3.1-2]: a well-formed QoS 0 PUBLISH has DUP 0
    pkt = ref.packet(0x30 + 8 * dup + 2 * qosbits + retain, body + pl)
    f = {'qos': qosbits, 'dup': dup, 'retain': retain, 'topic': cps, 'payload': pl, 'msgId': mid}
    return flow.rx_raw('PUBLISH', pkt, f)


def rx_pubrel(flow):
    eng = flow.eng
    mid = eng.int('relid', 0, 65535)
    dup = eng.int('reldup', 0, 1) if flow.ver == 31 else 0
    return flow.rx_raw('PUBREL', ref.enc_ack(ref.PUBREL, mid, dup=bool(dup)) if not flow.eng.symbolic or isinstance(dup, int) else
                       ref.packet(0x62 + 8 * dup, ref.enc_u16(mid)), {'msgId': mid, 'dup': dup})


def args_match(a, f):
    topic, payload, qos, dup, retain, mid = a
    conds = [all_eq(cplist(topic), f['topic']), all_eq(blist(payload), f['payload']), qos == f['qos'], as_int(dup) == f['dup'],
             as_int(retain) == f['retain']]
    if f['msgId'] is None:
        conds.append(mid is None)
    else:
        conds.append((mid == f['msgId']) if mid is not None else False)
    r = True
    for c in conds:
        if c is True:
            continue
        if c is False:
            return False
        r = c if r is True else (r & c)
    return r


def monitor(flow):
    eng, w = flow.eng, flow.w
    stored = {}        # receiver model: list of (id, [candidate publish fields], may) in arrival order
    exchanges = []     # [{'id':, 'cands': [...], 'may': False}]
    for st in range(len(w.steps)):
        m = flow.meta.get(st, {})
        kind = m.get('kind')
        if kind == 'connect' and m['conn'].idx > 0:
            if as_int(m['clean']) == 1:
                # a clean session forgets half-done inbound exchanges; whether a stale stored message is
                # still delivered on a later PUBREL is left open (the statement speaks of exchanges, and
                # the broker starts none on a clean session)
                for x in exchanges:
                    x['may'] = True
                eng.count('reconnect.clean')
            else:
                eng.count('reconnect.persistent')
            continue
        if kind != 'rx' or not m.get('delivered'):
            continue
        c = m['conn']
        f = m['fields']
        evs = [e for e in w.events if e.step == st]
        cbs = [e for e in evs if e.kind == 'onPublish']
        pk = flow.packets(c, st)
        acks = [p for p in pk if p['type'] in ('PUBACK', 'PUBREC', 'PUBCOMP')]
        others = [p for p in pk if p['type'] not in ('PUBACK', 'PUBREC', 'PUBCOMP')]
        eng.check(not others, 'unexpected-write', 'inbound %s made the client write %s' % (m['pkt'], [p['type'] for p in others]))
        eng.check(not [e for e in evs if e.kind in ('abort', 'lose')], 'closed-on-wellformed', 'well-formed %s closed the connection' % m['pkt'])
        if m['pkt'] == 'PUBLISH':
            if f['qos'] == 0:
                eng.count('qos0')
                eng.check(len(cbs) == 1, 'qos0-delivery-count', 'QoS 0 PUBLISH delivered %d times' % len(cbs))
                for e in cbs:
                    eng.check(args_match(e.a, f), 'delivery-args', 'onPublish arguments differ from the packet fields', sig='delivery-args:qos0')
                eng.check(not acks, 'unprompted-ack', 'QoS 0 PUBLISH answered with %s' % [p['type'] for p in acks])
            elif f['qos'] == 1:
                eng.count('qos1')
                eng.check(len(cbs) == 1, 'qos1-delivery-count', 'QoS 1 PUBLISH delivered %d times' % len(cbs))
                for e in cbs:
                    eng.check(args_match(e.a, f), 'delivery-args', 'onPublish arguments differ from the packet fields', sig='delivery-args:qos1')
                eng.check(len(acks) == 1 and acks[0]['type'] == 'PUBACK', 'qos1-ack', 'QoS 1 PUBLISH answered with %s' % [p['type'] for p in acks])
                if len(acks) == 1 and acks[0]['type'] == 'PUBACK':
                    eng.check(acks[0]['msgId'] == f['msgId'], 'ack-id', 'PUBACK does not echo the identifier')
            elif f['qos'] == 2:
                eng.check(not cbs, 'qos2-early-delivery', 'QoS 2 PUBLISH delivered before PUBREL')
                eng.check(len(acks) == 1 and acks[0]['type'] == 'PUBREC', 'qos2-ack', 'QoS 2 PUBLISH answered with %s' % [p['type'] for p in acks])
                if len(acks) == 1 and acks[0]['type'] == 'PUBREC':
                    eng.check(acks[0]['msgId'] == f['msgId'], 'ack-id', 'PUBREC does not echo the identifier')
                found = None
                for x in exchanges:
                    if x['id'] == f['msgId']:
                        found = x
                        break
                if found is None:
                    exchanges.append({'id': f['msgId'], 'cands': [f], 'may': False})
                    eng.count('qos2.stored')
                elif found['may']:
                    # the earlier exchange belonged to a session that has been discarded since: this PUBLISH starts a
                    # new exchange under the same identifier, and it is this message that the PUBREL releases
                    found['cands'] = [f]
                    found['may'] = False
                    eng.count('qos2.id-reused-after-clean')
                else:
                    found['cands'].append(f)
                    eng.count('qos2.repeat-publish')
            else:
                eng.count('qos3')
                eng.check(not cbs, 'qos3-delivered', 'PUBLISH with QoS bits 11 reached onPublish')
                eng.check(not acks, 'unprompted-ack', 'malformed PUBLISH answered')
            if any(eng.feasible(cp > 0x7F) for cp in f['topic']):
                eng.count('multibyte-topic')
        elif m['pkt'] == 'PUBREL':
            eng.check(len(acks) == 1 and acks[0]['type'] == 'PUBCOMP', 'pubrel-ack', 'PUBREL answered with %s (a PUBCOMP is due, first or repeated)' % (
                [p['type'] for p in acks],), sig='pubrel-ack:%d' % len(acks))
            if len(acks) == 1 and acks[0]['type'] == 'PUBCOMP':
                eng.check(acks[0]['msgId'] == f['msgId'], 'ack-id', 'PUBCOMP does not echo the identifier')
            found = None
            for x in exchanges:
                if x['id'] == f['msgId']:
                    found = x
                    break
            if found is None:
                eng.check(not cbs, 'pubrel-unknown-delivery', 'PUBREL for an identifier with no stored message called onPublish')
                seen = any(s2 < st and f2.get('kind') == 'PUBREL' and eng.feasible(f2['msgId'] == f['msgId']) for (s2, c2, f2) in flow.rx_log)
                eng.count('pubrel.repeat' if seen else 'pubrel.unknown')
            else:
                exchanges.remove(found)
                if found['may']:
                    eng.check(len(cbs) <= 1, 'qos2-delivery-count')
                else:
                    eng.check(len(cbs) == 1, 'qos2-delivery-count', 'QoS 2 exchange delivered %d times on its first PUBREL' % len(cbs),
                              sig='qos2-delivery-count:%d' % len(cbs))
                    eng.count('qos2.delivered')
                    if c.idx > 0 and all(not any(s == st2 for s in [st]) for st2 in []):
                        pass
                    if any(cc.idx < c.idx for (s2, cc, f2) in flow.rx_log if f2 in found['cands']):
                        eng.count('delivered-after-reconnect')
                for e in cbs:
                    ok = False
                    for cand in found['cands']:
                        mm = args_match(e.a, cand)
                        if mm is True or (mm is not False and eng.valid(mm)):
                            ok = True
                            break
                    eng.check(ok, 'delivery-args', 'QoS 2 delivery differs from every PUBLISH of the exchange', sig='delivery-args:qos2')
    # callbacks only in steps that delivered a packet
    for e in w.events:
        if e.kind == 'onPublish':
            eng.check(flow.meta.get(e.step, {}).get('kind') == 'rx', 'delivery-without-packet', 'onPublish called in step %s' % w.steps[e.step][0])
    for (st, c, p) in flow.all_packets():
        if p['type'] in ('PUBACK', 'PUBREC', 'PUBCOMP'):
            eng.check(flow.meta.get(st, {}).get('kind') == 'rx', 'unprompted-ack', '%s written in step %s' % (p['type'], w.steps[st][0]))


def h_inbound(eng, params):
    flow = Flow(eng, params['profile'], clean=not params.get('persistent', False), ver=params.get('ver', 311))
    flow.open()
    for i in range(params['k']):
        kinds = list(KINDS)
        forced = params.get('first') if i == 0 else params.get('second') if i == 1 else None
        kind = forced if forced is not None else eng.choose(kinds, 'step')
        eng.note('free step %d: %s' % (i, kind))
        if kind == 'PUBLISH':
            rx_publish(flow, params)
        elif kind == 'PUBREL':
            rx_pubrel(flow)
        else:
            flow.lose()
            clean = eng.bool('clean-reconnect')
            flow.open(clean=clean, sp=0)
    monitor(flow)
    return flow.finish()


HARNESSES = {'inbound': h_inbound}


def shards(tier):
    T = tier == 'thorough'
    out = []
    for profile in ('subscriber', 'pubsubs'):
        for persistent in (False, True):
            for first in KINDS:
                for second in KINDS:
                    out.append(('inbound', {'profile': profile, 'persistent': persistent, 'k': 4 if T else 3, 'first': first, 'second': second,
                                            'vary': False, 'ver': 311, 'rich': 1}))
    out.append(('inbound', {'profile': 'pubsubs', 'persistent': True, 'k': 3, 'first': 'PUBLISH', 'second': 'PUBREL', 'ver': 31}))
    if not T:
        # an exchange interrupted by a loss, then two more steps (e.g. the identifier reused on the next connection and released)
        for profile in ('subscriber', 'pubsubs'):
            for persistent in (False, True):
                out.append(('inbound', {'profile': profile, 'persistent': persistent, 'k': 4, 'first': 'PUBLISH', 'second': 'reconnect',
                                        'vary': False, 'ver': 311, 'rich': 0}))
                # a completed exchange, then two more steps (the identifier reused by a new message, DUP set or not, and released)
                out.append(('inbound', {'profile': profile, 'persistent': persistent, 'k': 4, 'first': 'PUBLISH', 'second': 'PUBREL',
                                        'vary': False, 'ver': 311, 'rich': 0}))
    return out


META = {
    'rule': 'connected subscribing client; k free steps from {PUBLISH with symbolic QoS bits 0..3, DUP, RETAIN, identifier, topic code point(s) over the whole '
            'Unicode range, payload byte(s); PUBREL with symbolic identifier; loss + rebuilt protocol + connect(clean symbolic) + CONNACK}; a receiver model '
            'written from the statement tracks the open QoS 2 exchanges; non-trivial = counters',
    'bounds': {'quick': 'k=3 (k=4 for histories starting PUBLISH, loss + reconnect and for histories starting PUBLISH, PUBREL); topic 1 symbolic code point (whole Unicode range in the first PUBLISH of a history, printable ASCII later), payload 1 symbolic byte; subscriber and pubsubs; first session clean or persistent',
               'thorough': 'k=4'},
    'stubs': ['fake transport', 'twisted task.Clock', 'jitter: fixed sequence'],
    'outside': ['histories longer than k steps', 'after a clean-session reconnect the fate of a message stored by the previous connection is left open (0 or 1 delivery)',
                'differing contents in repeated QoS 2 PUBLISH packets of one exchange: any of them may be delivered'],
    'assumptions': ['well-formed QoS 0 PUBLISH has DUP=0', 'topic code points are Unicode scalar values'],
}

MANIFEST = {
    'text': 'All histories of k inbound PUBLISH/PUBREL packets with fully symbolic header bits, identifiers, topic code points and payload bytes, interleaved with connection loss and clean or persistent reconnect, are run on the real subscriber code; a receiver model written from the statement decides per step how many onPublish calls and which acknowledgement (echoing the identifier) are due, and z3 decides argument equality for all field values.',
    'design_ref': '7 C06',
    'note': 'trusted: z3, engine, reference codec, Twisted.',
}
