"""C19 - connections to different broker addresses through one factory do not interfere"""
from fractions import Fraction
from .. import refcodec as ref
from .. import scen
from ..flow import Flow
from ..world import World, all_eq, as_int, lnot, blist, mkstr, mkbytearray

PROPERTY = 'C19'
BUDGET = {'quick': {'seconds': 1500, 'xreplay_every': 100}, 'thorough': {'seconds': 6000, 'xreplay_every': 2000}}
NONTRIVIAL = {'quick': ['compared', 'a-effect', 'b-loss', 'b-reconnect-clean', 'b-reconnect-persistent', 'alias-with-b', 'a-retransmission', 'a-completed',
                        'ids-distinct']}

A_KINDS = ('publish', 'ack', 'advance')
A_KINDS_X = ('publish', 'ack', 'advance', 'reconnect', 'idle-loss')
B_KINDS = ('publish', 'ack', 'loss', 'reconnect')
ACKS = ('own0', 'own1', 'foreign-PUBACK', 'foreign-PUBCOMP', 'foreign-SUBACK')


def make_script(eng, kinds, k, who, forced=None):
    """script = list of steps with their symbolic data, created once and replayed in both runs"""
    out = [{'kind': 'publish', 'qos': eng.int('qos', 1, 2), 'pl': eng.int('pl', 0, 255)}]
    if who == 'A':
        out.append({'kind': 'subscribe'})
    for i in range(k):
        kind = forced[i] if (forced and i < len(forced) and forced[i] in kinds) else eng.choose(kinds, who + '-step')
        d = {'kind': kind}
        if kind == 'publish':
            d['qos'] = eng.int('qos', 1, 2)
            d['pl'] = eng.int('pl', 0, 255)
        elif kind == 'ack':
            d['which'] = eng.choose(ACKS if who == 'A' else ACKS[:2], who + '-ack')
            d['foreign'] = eng.int('foreign', 0, 65535)
            d['g'] = eng.int('g', 0, 255)
        elif kind == 'advance':
            d['dt'] = eng.real('dt', 0, 12 if who == 'A12' else 60)
        elif kind == 'reconnect':
            d['clean'] = eng.bool('clean')
        out.append(d)
    return out


class Side(object):
    def __init__(self, flow, ai, persistent):
        self.flow = flow
        self.ai = ai
        self.c = None
        self.persistent = persistent
        self.reqs = []
        self.alive = True


def do_step(eng, side, d, who):
    flow = side.flow
    c = side.c
    kind = d['kind']
    if kind == 'advance':
        flow.advance(d['dt'])
        return
    if kind == 'idle-loss':
        # loss, then a rebuilt protocol whose transport dies before connect() is called, then a persistent reconnect
        if not c.lost:
            flow.lose(c=c)
        c2 = flow.w.build(side.ai)
        st = flow.w.begin_step('lose')
        flow.meta[st] = {'kind': 'lose', 'conn': c2}
        c2.lose_step = st
        c2.connect_tr = None
        c2.connack_step = None
        c2.clean = False
        flow.w.lose(c2, clean=False)
        flow.keepalive = getattr(side, 'keepalive', 0)
        side.c = flow.open(ai=side.ai, clean=False)
        if not getattr(side, 'default_window', False):
            side.c.p.setWindowSize(2)
            side.c.window = 2
        return
    if kind == 'reconnect':
        if not c.lost:
            flow.lose(c=c)
        flow.keepalive = getattr(side, 'keepalive', 0)
        side.c = flow.open(ai=side.ai, clean=d['clean'])
        if not getattr(side, 'default_window', False):
            side.c.p.setWindowSize(2)
            side.c.window = 2
        return
    if c.lost:
        return
    if kind == 'publish':
        r = flow.publish(qos=d['qos'], retain=False, c=c, tag=len(side.reqs) + (13 if who == 'B' else 0), pl=d['pl'])
        side.reqs.append(r)
    elif kind == 'subscribe':
        side.reqs.append(flow.subscribe('str', qos=1, c=c, tag=len(side.reqs) + (13 if who == 'B' else 0)))
    elif kind == 'loss':
        flow.lose(c=c)
    elif kind == 'inbound':
        t = d['type']
        if t == 'PUBREL':
            flow.rx_raw('PUBREL', ref.enc_ack(ref.PUBREL, d['mid']), {'msgId': d['mid']}, c)
        else:
            q = int(t[-1])
            flow.rx_raw(t, ref.enc_publish(mkstr(eng, [0x69]), [d['pb']], q, 0, 0, d['mid']),
                        {'qos': q, 'msgId': d['mid'], 'topic': [0x69], 'payload': [d['pb']], 'dup': 0, 'retain': 0}, c)
    elif kind == 'ack':
        pend = [r for r in side.reqs if r.tr is not None and not r.tr.fired and r.msgId is not None]
        which = d['which']
        if which.startswith('own') and len(pend) > int(which[-1]):
            r = pend[int(which[-1])]
            mid = r.msgId
            if r.kind == 'subscribe':
                t = 'SUBACK'
            elif r.qos == 1:
                t = 'PUBACK'
            else:
                released = any(f['kind'] == 'PUBREC' and cc is c and eng.valid(f['msgId'] == mid) for (st, cc, f) in flow.rx_log)
                t = 'PUBCOMP' if released else 'PUBREC'
        else:
            t = which.split('-')[1] if '-' in which else 'PUBACK'
            mid = d['foreign']
            for r in side.reqs:
                if r.msgId is not None:
                    eng.assume(mid != r.msgId)      # foreign to THIS protocol; it may well be an identifier of the other one
        if t == 'SUBACK':
            flow.rx_raw('SUBACK', ref.enc_suback(mid, [d['g']]), {'msgId': mid, 'granted': [d['g']]}, c)
        else:
            flow.rx_raw(t, ref.enc_ack(getattr(ref, t), mid), {'msgId': mid}, c)


def projection(eng, flow, side_conns, reqs):
    """observation log of one side with its identifiers renamed to request ordinals"""
    w = flow.w
    ids = [(r.msgId, i) for i, r in enumerate(reqs) if r.msgId is not None]

    def ren(x):
        for (m, i) in ids:
            if eng.valid(x == m):
                return ('req', i)
        return ('id', x)
    out = []
    for e in w.events:
        if e.conn is None or e.conn not in side_conns:
            if e.kind == 'exc':
                out.append(('exc', e.a[0], type(e.a[1]).__name__))
            continue
        ci = side_conns.index(e.conn)
        if e.kind == 'write':
            try:
                pk = ref.parse_stream(blist(e.a), v31=False, direction=ref.CLIENT_TO_BROKER)
            except ref.Malformed:
                out.append(('write-malformed', ci))
                continue
            for p in pk:
                item = {'type': p['type'], 'conn': ci}
                for k in ('dup', 'qos', 'retain'):
                    if k in p:
                        item[k] = p[k]
                if p.get('msgId') is not None:
                    if p['type'] in ('PUBLISH', 'PUBREL', 'SUBSCRIBE', 'UNSUBSCRIBE'):
                        item['id'] = ren(p['msgId'])
                    else:
                        item['id'] = ('id', p['msgId'])     # acknowledgement of an inbound packet: broker's identifier space
                if 'topic' in p:
                    item['topic'] = list(p['topic'])
                    item['payload'] = list(p['payload'])
                out.append(('write', sorted(item.items())))
        elif e.kind == 'fire':
            tr, ok, v = e.a
            idx = [i for i, r in enumerate(reqs) if r.tr is tr]
            tag = ('req', idx[0]) if idx else tr.tag
            if not ok:
                val = type(v.value).__name__
            elif isinstance(v, list):
                val = [(x[0], as_int(x[1])) for x in v]
            elif v is None or isinstance(v, bool):
                val = v
            elif tag != tr.tag:
                val = ren(v)
            else:
                val = as_int(v)
            out.append(('fire', ci, tag, ok, val))
        elif e.kind == 'onPublish':
            t, pl, q, du, rt, mid = e.a
            out.append(('onPublish', ci, list(scen.cplist(t)), list(blist(pl)), q, as_int(du), as_int(rt), mid))
        elif e.kind in ('lose', 'abort', 'onDisconnection', 'onMqttConnectionMade'):
            out.append((e.kind, ci))
    return out


def flatten_cmp(eng, a, b):
    """structural comparison of two projections; symbolic leaves by validity"""
    def cmp(x, y):
        if isinstance(x, (list, tuple)) and isinstance(y, (list, tuple)):
            if len(x) != len(y):
                return False
            r = True
            for p, q in zip(x, y):
                c = cmp(p, q)
                if c is False:
                    return False
                if c is not True:
                    r = c if r is True else (r & c)
            return r
        if x is None or y is None:
            return x is None and y is None
        c = (x == y)
        if c is NotImplemented:
            return False
        return c
    return cmp(a, b)


def h_two(eng, params):
    jit = [Fraction(1, 2)] * 1024
    a_script = make_script(eng, A_KINDS_X if params.get('a_faults') else A_KINDS, params['ka'], 'A', params.get('afirst'))
    b_script = make_script(eng, B_KINDS, params['kb'], 'B', params.get('bfirst'))
    # interleaving: positions of B's steps among A's
    # B's prefix publish runs first; its free steps are merged anywhere among A's steps
    slots = [0]
    lo = 0
    for j in range(1, len(b_script)):
        lo = eng.choose(range(lo, len(a_script) + 1), 'B-after-A-step')
        slots.append(lo)
    b_persistent = params.get('b_persistent', False)

    def run(joint):
        flow = Flow(eng, 'pubsubs', naddr=2, clean=True)
        flow.w.env.jitter_pool = list(jit)
        ka, kb = params.get('keepalive', (0, 0))
        A = Side(flow, 0, False)
        A.keepalive = ka
        A.default_window = bool(params.get('a_default_window'))
        B = Side(flow, 1, b_persistent)
        B.keepalive = kb

        def open_b():
            flow.keepalive = kb
            B.c = flow.open(ai=1, clean=not b_persistent)
            B.c.p.setWindowSize(params.get('b_window', 2))
            B.c.window = params.get('b_window', 2)
        if joint and params.get('b_first'):
            open_b()
        flow.keepalive = ka
        A.c = flow.open(ai=0, clean=not params.get('a_persistent', False))
        if not A.default_window:
            A.c.p.setWindowSize(2)
            A.c.window = 2
        if joint and not params.get('b_first'):
            open_b()
        bi = 0
        for i in range(len(a_script) + 1):
            if joint:
                while bi < len(b_script) and slots[bi] == i:
                    do_step(eng, B, b_script[bi], 'B')
                    if b_script[bi]['kind'] == 'loss':
                        eng.count('b-loss')
                    if b_script[bi]['kind'] == 'reconnect':
                        eng.count('b-reconnect-clean' if eng.valid(as_int(b_script[bi]['clean']) == 1) else 'b-reconnect-persistent')
                    bi += 1
            if i < len(a_script):
                do_step(eng, A, a_script[i], 'A')
        flow.advance(params.get('tail', 200))
        a_conns = [c for c in flow.w.conns if c.ai == 0]
        proj = projection(eng, flow, a_conns, A.reqs)
        if joint:
            # identifiers of unfinished requests never collide across the two protocols
            unfinished = [r for r in A.reqs + B.reqs if r.tr is not None and not r.tr.fired and r.msgId is not None]
            for x in range(len(unfinished)):
                for y in range(x + 1, len(unfinished)):
                    eng.check(unfinished[x].msgId != unfinished[y].msgId, 'identifier-collision')
                    eng.count('ids-distinct')
            for d in a_script:
                if d['kind'] == 'ack' and any(r.msgId is not None and eng.feasible(d['foreign'] == r.msgId) for r in B.reqs):
                    eng.count('alias-with-b')
        from ..world import check_no_exceptions
        check_no_exceptions(flow.w)
        return proj
    joint = run(True)
    alone = run(False)
    ok = flatten_cmp(eng, joint, alone)
    eng.check(ok, 'interference', 'the observation log of address A differs when address B is active', sig='interference')
    eng.count('compared')
    if any(x[0] in ('fire', 'onPublish') for x in alone):
        eng.count('a-effect')
    if any(x[0] == 'fire' and x[3] for x in alone):
        eng.count('a-completed')
    if any(x[0] == 'write' and dict(x[1]).get('dup') == 1 for x in alone):
        eng.count('a-retransmission')
    return {'joint': joint}


HARNESSES = {'two': h_two}


def shards(tier):
    T = tier == 'thorough'
    out = []
    for bp in (False, True):
        for a1 in A_KINDS:
            for b1 in B_KINDS:
                for b2 in B_KINDS:
                    out.append(('two', {'ka': 2, 'kb': 2, 'b_persistent': bp, 'afirst': (a1,), 'bfirst': (b1, b2)}))
                    if T and b1 in ('loss', 'reconnect') and b2 in ('ack', 'reconnect'):
                        for a2 in A_KINDS:
                            out.append(('two', {'ka': 3, 'kb': 2, 'b_persistent': bp, 'afirst': (a1, a2), 'bfirst': (b1, b2)}))
        # A keeps the library's default window and B, built first, configures a larger one; A itself is lost and rebuilt
        for a1 in ('publish', 'reconnect', 'idle-loss'):
            for b1 in ('publish', 'reconnect', 'loss'):
                out.append(('two', {'ka': 2, 'kb': 1, 'b_persistent': bp, 'afirst': (a1,), 'bfirst': (b1,), 'a_default_window': True, 'b_first': True,
                                    'b_window': 4, 'a_persistent': True, 'a_faults': True}))
        # both addresses with keepalive running: A publishes and lets time pass while B connects, is lost or reconnects
        for b1 in ('publish', 'loss', 'reconnect'):
            out.append(('two', {'ka': 1, 'kb': 1, 'b_persistent': bp, 'afirst': ('advance',), 'bfirst': (b1,), 'keepalive': (5, 7), 'tail': 12}))
    return out


META = {
    'rule': 'two protocols A and B of one pubsubs factory on two addresses and one clock; scripts of kA / kB steps with symbolic data (QoS, payload, acknowledgement '
            'identifiers either of the own j-th outstanding request or symbolic and foreign to the receiving protocol - possibly an identifier of the other protocol, '
            'inbound identifiers, time), every interleaving position of B among A; the same A script is then run alone on a fresh factory and A\'s observation logs '
            '(identifiers renamed to request ordinals) are compared',
    'bounds': {'quick': 'A: publish, subscribe + 2 free steps; B: publish + 2 free steps; variant: B built first with window 4, A with the default window on a persistent session and itself lost / rebuilt (also lost before connect()); keepalive off, or 5 s on A and 7 s on B; B includes loss and clean/persistent reconnect; window 2 on both', 'thorough': 'as quick, plus 3 free steps for A against B histories that contain a loss or a reconnect'},
    'stubs': ['fake transports', 'one twisted task.Clock', 'jitter: the constant 1/2 (so that timers of A are due at the same instants in both runs)'],
    'outside': ['more than two addresses', 'jitter values other than a constant', 'histories longer than kA+kB steps'],
    'assumptions': ['acknowledgement types fit the exchange they address'],
}

MANIFEST = {
    'text': 'For every pair of short symbolic histories on two addresses of one factory and every interleaving, the real code is run jointly and then for address A alone on a fresh factory; z3 proves the two observation logs of A equal for all data values (identifiers renamed to per-protocol ordinals; a foreign acknowledgement identifier may alias a request of B), and that identifiers of unfinished requests never collide across the protocols.',
    'design_ref': '7 C19',
    'note': 'trusted: z3, engine, reference codec, Twisted.',
}
