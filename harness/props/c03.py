"""C03 - packet framing is independent of how TCP segments the byte stream"""
import itertools
from fractions import Fraction
from symex import env as senv
from .. import refcodec as ref
from .. import scen
from ..world import World, mkbytes, mkstr, mkbytearray, blist, all_eq

PROPERTY = 'C03'
BUDGET = {'quick': {'seconds': 900, 'xreplay_every': 40}, 'thorough': {'seconds': 3000, 'xreplay_every': 400}}
NONTRIVIAL = {'quick': ['raw.frames', 'raw.cut-in-length-field', 'seq.effect', 'seq.compositions', 'long.rl2', 'long.rl3']}


def compositions(n, max_cuts, all_upto=0):
    """cut sets (sorted tuples of positions 1..n-1): all with <= max_cuts cuts, byte-at-a-time, and every composition when n <= all_upto"""
    pos = list(range(1, n))
    out = []
    if n <= all_upto:
        for k in range(0, n):
            out.extend(itertools.combinations(pos, k))
        return out
    for k in range(0, max_cuts + 1):
        out.extend(itertools.combinations(pos, k))
    if n - 1 > max_cuts:
        out.append(tuple(pos))
    return out


def split(stream, cuts):
    b = [0] + list(cuts) + [len(stream)]
    return [stream[b[i]:b[i + 1]] for i in range(len(b) - 1)]


def project(w):
    """observable actions in order, without step numbers"""
    return [(k, ci, a) for (k, ci, st, tm, a) in w.trace()]


# ------------------------------------------------------------------------------ (a) arbitrary bytes, framing layer

def h_raw(eng, params):
    n = params['n']
    stream = [eng.int('b', 0, 255) for _ in range(n)]
    sentinel = [0] * 6

    def run(chunks):
        w = World(eng, 'pubsubs')
        c = w.build()
        if not hasattr(c.p, '_processPacket'):
            return None
        frames = []
        c.p._processPacket = lambda pkt: frames.append(mkbytearray(eng, blist(pkt)))
        for ch in chunks + [sentinel]:
            w.begin_step('rx')
            w.rx_list(c, ch, force=True)
        return (frames, [(e.a[0], type(e.a[1]).__name__) for e in w.excs()])
    base = run([stream])
    if base is None:
        eng.note('no _processPacket seam: framing-layer harness skipped')
        return None
    # reference framing of the same bytes
    try:
        rframes, rest = ref.split_frames(stream + sentinel)
        eng.check(len(rframes) == len(base[0]) and all(all_eq(blist(f), raw) is not False for f, (_, _, raw) in zip(base[0], rframes)),
                  'raw.reference-framing')
        for f, (_, _, raw) in zip(base[0], rframes):
            eng.check(all_eq(blist(f), raw), 'raw.reference-frame-bytes')
    except ref.Malformed:
        pass  # over-long remaining-length field: no reference behaviour, only self-consistency below
    if base[0]:
        eng.count('raw.frames')
    for cuts in compositions(n, params['max_cuts'], params.get('all_upto', 0)):
        t = run(split(stream, cuts))
        scen.compare_traces(eng, base, t, 'raw.framing', 'cuts=%s' % (cuts,))
        if 2 in cuts and n > 2 and not eng.valid(stream[1] < 128):
            eng.count('raw.cut-in-length-field')
    return {'frames': base[0]}


# ------------------------------------------------------------------------------ (d) well-formed sequences, real processing

def seq_prefix(eng, pool):
    w = World(eng, 'pubsubs', jitter_pool=pool)
    c = w.build()
    w.begin_step('connect')
    scen.connect(w, c)
    w.begin_step('connack')
    scen.connack(w, c)
    w.begin_step('requests')
    c.p.setWindowSize(4)
    w.api(c, 'publish', 'pub1', scen.topic(eng), mkbytearray(eng, [1]), qos=1)
    w.api(c, 'publish', 'pub2', scen.topic(eng), mkbytearray(eng, [2]), qos=2)
    w.api(c, 'subscribe', 'sub', scen.topic(eng), 1)
    w.api(c, 'unsubscribe', 'unsub', scen.topic(eng))
    w.api(c, 'publish', 'pub3', scen.topic(eng), mkbytearray(eng, [3]), qos=2)
    w.begin_step('pubrec3')
    # one exchange already in the PUBREL stage (identifier taken from the Deferred)
    return w, c


def connecting_prefix(eng, pool):
    """handshake in progress on a resumed persistent session: a QoS 1 and a QoS 2 publish carried over from an earlier
    connection, one more publish issued before CONNACK"""
    w = World(eng, 'pubsubs', jitter_pool=pool)
    c0 = w.build()
    w.begin_step('connect-0')
    scen.connect(w, c0, 0, False)
    w.begin_step('connack-0')
    scen.connack(w, c0)
    w.begin_step('requests-0')
    c0.p.setWindowSize(4)
    w.api(c0, 'publish', 'pub1', scen.topic(eng), mkbytearray(eng, [1]), qos=1)
    w.api(c0, 'publish', 'pub2', scen.topic(eng), mkbytearray(eng, [2]), qos=2)
    w.begin_step('lose-0')
    w.lose(c0)
    c = w.build()
    w.begin_step('connect')
    scen.connect(w, c, 0, False)
    w.begin_step('early-publish')
    c.p.setWindowSize(4)
    w.api(c, 'publish', 'pub3', scen.topic(eng), mkbytearray(eng, [3]), qos=1)
    return w, c


def h_seq(eng, params):
    kinds = params['kinds']
    pkts = [scen.broker_packet(eng, k, ntopic=1, npayload=1, ngranted=1, payload_filler=params.get('filler', 0))[0] for k in kinds]
    stream = [b for p in pkts for b in p]
    # the same concrete jitter sequence in every compared run (timer order is not the subject here)
    pool = [Fraction(k % 15 + 1, 16) for k in range(256)]

    def run(chunks):
        w, c = connecting_prefix(eng, pool) if params.get('state') == 'connecting' else seq_prefix(eng, pool)
        w.env.jitter_calls = 0
        mark = len(w.events)
        for ch in chunks:
            w.begin_step('rx')
            w.rx_list(c, ch, force=True)
        w.begin_step('final')
        w.advance(1000)
        return [(k, ci, a) for (k, ci, st, tm, a) in w.trace()[mark:]]
    base = run(pkts)
    if any(k not in ('exc',) for (k, ci, a) in base[:-1] if k in ('fire', 'onPublish', 'write')):
        eng.count('seq.effect')
    n = len(stream)
    comps = compositions(n, params['max_cuts'], params.get('all_upto', 0))
    if params.get('filler'):
        # long stream: cuts inside header, length field, start/middle/end of the body, byte-at-a-time over the first 8 bytes
        comps = [(1,), (2,), (3,), (4,), (5,), (n // 2,), (n - 1,), (2, n - 1), (1, 3, n // 2), tuple(range(1, 9))]
        comps = [tuple(x for x in c if 0 < x < n) for c in comps]
    for cuts in comps:
        if cuts == tuple(sum(len(p) for p in pkts[:i + 1]) for i in range(len(pkts) - 1)):
            continue
        t = run(split(stream, cuts))
        scen.compare_traces(eng, base, t, 'seq.framing', 'kinds=%s cuts=%s' % (kinds, cuts))
        eng.count('seq.compositions')
    if params.get('filler'):
        rl = len(pkts[0]) - 1
        eng.count('long.rl%d' % (2 if pkts[0][1] >= 128 and pkts[0][2] < 128 else 3 if pkts[0][1] >= 128 else 1))
    return {'base': base}


HARNESSES = {'raw': h_raw, 'seq': h_seq}


def shards(tier):
    T = tier == 'thorough'
    out = []
    for n in ((2, 3, 4, 5, 6, 7) if T else (2, 3, 4, 5)):
        out.append(('raw', {'n': n, 'max_cuts': 3 if T else 2, 'all_upto': 6 if T else 5}))
    K = scen.BROKER_KINDS
    for k in K:
        out.append(('seq', {'kinds': (k,), 'max_cuts': 3, 'all_upto': 10}))
    for k1 in K:
        for k2 in K:
            out.append(('seq', {'kinds': (k1, k2), 'max_cuts': 2 if not T else 3, 'all_upto': 0 if not T else 9}))
    # the handshake completes inside the stream: CONNACK followed by traffic of a resumed session
    for k2 in K:
        out.append(('seq', {'kinds': ('CONNACK0', k2), 'state': 'connecting', 'max_cuts': 2 if not T else 3, 'all_upto': 0 if not T else 9}))
        if T:
            for k3 in ('PUBLISH1', 'PUBACK', 'PUBREC', 'PUBREL'):
                out.append(('seq', {'kinds': ('CONNACK0', k2, k3), 'state': 'connecting', 'max_cuts': 2}))
    if T:
        for ks in itertools.product(('PUBLISH1', 'PUBLISH2', 'PUBACK', 'PUBREC', 'PUBREL', 'PUBCOMP', 'SUBACK', 'PINGRESP'), repeat=3):
            out.append(('seq', {'kinds': ks, 'max_cuts': 2}))
    for rl in ((127, 128, 16383, 16384, 2097151, 2097152) if T else (127, 128, 16383, 16384)):
        for k, hdr in (('PUBLISH0', 3), ('PUBLISH1', 5), ('PUBLISH2', 5)):
            # remaining length = 2 + 1 (topic) [+2 id] + 1 + filler + 0
            out.append(('seq', {'kinds': (k, 'PUBACK'), 'filler': rl - hdr - 1, 'max_cuts': 1}))
    return out


META = {
    'rule': 'per path one assignment class of the symbolic packet fields / stream bytes; within the path every listed composition of the '
            'stream into chunks is delivered to a fresh protocol and its observation log compared (validity) with one-packet-per-chunk delivery; '
            'non-trivial = paths where a delivery had an application-visible effect, a cut fell inside a multi-byte length field, multi-byte '
            'remaining lengths',
    'bounds': {
        'quick': '(a) 2..5 arbitrary bytes + 6-byte zero sentinel, every composition; (d) sequences of 1..2 broker packets of all 11 kinds '
                 '(identifiers, flags, 1 topic character, 1 payload byte, 1 granted code symbolic) against a connected pubsubs client with a '
                 'QoS1 PUBLISH, two QoS2 PUBLISH, SUBSCRIBE and UNSUBSCRIBE pending, and (CONNACK + one packet) against a client whose handshake is in progress on a resumed persistent session: all compositions for single packets, all <=2-cut '
                 'compositions and byte-at-a-time for pairs, then 1000 s of virtual time; (c) PUBLISH with remaining length 127/128/16383/16384 '
                 'followed by PUBACK, cuts in header, length field, body',
        'thorough': '(a) up to 7 bytes, all compositions up to 6 bytes, <=3 cuts beyond; (d) pairs with all compositions, triples with <=2 cuts; '
                    '(c) also 2097151/2097152',
    },
    'stubs': ['fake transport', 'twisted task.Clock', 'jitter: a fixed sequence k/16 shared by the compared runs',
              '(a) only: instance attribute _processPacket replaced by a recorder'],
    'outside': ['jitter values other than the fixed sequence (timer order is not the subject)', 'more than 3 packets per stream', 'remaining lengths above 2097152', 'chunk compositions with more than 3 cuts on streams longer than 9 bytes (except byte-at-a-time)'],
    'assumptions': ['delivery continues after abortConnection() in both compared runs (only the framing is under test here)'],
}

MANIFEST = {
    'text': 'For every symbolic assignment class of a short broker packet sequence (or of arbitrary bytes at the framing layer) the real dataReceived/_accumulatePacket/dispatch code is run once per chunk composition and the observation logs (onPublish calls, Deferred outcomes, writes, close calls, exceptions, later timer activity) are proven equal to whole-packet delivery for all field values of the path. The space tests cannot reach is the product of packet contents and cut positions; here contents are solver-quantified and cut positions enumerated exhaustively within the bound.',
    'design_ref': '7 C03',
    'note': 'trusted: z3, engine, reference codec (packet construction and reference framing), Twisted Clock/Deferred. Bounds in evidence.',
}
