"""C18 - each connection's output is a well-formed client packet stream led by CONNECT"""
from .. import refcodec as ref
from .. import scen
from ..flow import Flow, fixed_jitter
from ..world import World, all_eq, as_int, lnot, blist, mkbytearray, check_no_exceptions
from . import c05

PROPERTY = 'C18'
BUDGET = {'quick': {'seconds': 1500, 'xreplay_every': 50}, 'thorough': {'seconds': 6000, 'xreplay_every': 1000}}
NONTRIVIAL = {'quick': ['stream-parsed', 'disconnect', 'abort', 'api-while-closing', 'timer-while-closing', 'api-after-loss', 'second-connection',
                        'disconnect-refused', 'resumed-with-queue']}

CLOSING_STEPS = ('publish', 'subscribe', 'unsubscribe', 'connect', 'disconnect', 'advance', 'setWindowSize')
AFTER_STEPS = ('publish', 'subscribe', 'unsubscribe', 'disconnect', 'advance')


def stream_of(w, c):
    """[(step, byte list)] written on connection c"""
    return [(e.step, blist(e.a)) for e in w.events if e.kind == 'write' and e.conn is c]


def check_stream(eng, w, c, ver, disconnect_steps, connect_step):
    """the oracle of the property for one connection"""
    writes = stream_of(w, c)
    data = [b for (st, bs) in writes for b in bs]
    # nothing before connect()
    early = [st for (st, bs) in writes if connect_step is None or st < connect_step]
    eng.check(not early, 'write-before-connect', 'bytes written in step(s) %s before connect()' % early)
    # nothing once the connection has been reported lost
    if c.lost:
        late = [st for (st, bs) in writes if st > c.lose_step]
        eng.check(not late, 'write-after-loss', 'bytes written to the transport after its loss was reported (steps %s: %s)' % (
            late, [w.steps[s][0] for s in late]), sig='write-after-loss:' + ','.join(sorted(set(w.steps[s][0] for s in late))))
    try:
        pk = ref.parse_stream(data, v31=(ver == 31), direction=ref.CLIENT_TO_BROKER)
    except ref.Malformed as m:
        eng.check(False, 'malformed-stream', 'connection %d: %s' % (c.idx, m), sig='malformed-stream')
        return
    eng.count('stream-parsed')
    if not pk:
        return
    types = [p['type'] for p in pk]
    eng.check(types[0] == 'CONNECT', 'first-packet-not-CONNECT', 'the stream starts with %s' % types[0])
    eng.check(types.count('CONNECT') == 1, 'more-than-one-CONNECT', '%d CONNECT packets on one connection' % types.count('CONNECT'))
    # packet boundaries -> steps
    pos = 0
    bounds = []
    for (st, bs) in writes:
        pos += len(bs)
        bounds.append((pos, st))
    off = 0
    pstep = []
    raw_frames, _ = ref.split_frames(data)
    for (first, body, raw) in raw_frames:
        off += len(raw)
        for (p, st) in bounds:
            if off <= p:
                pstep.append(st)
                break
    for i, p in enumerate(pk):
        if p['type'] == 'DISCONNECT':
            st = pstep[i]
            eng.check(st in disconnect_steps, 'DISCONNECT-outside-disconnect', 'DISCONNECT written in step %s' % w.steps[st][0])
            eng.check(any(e.kind == 'lose' and e.conn is c and e.step == st for e in w.events), 'DISCONNECT-without-close',
                      'disconnect() wrote DISCONNECT but did not ask the transport to close')
            rest = [(pk[j]['type'], w.steps[pstep[j]][0]) for j in range(i + 1, len(pk))]
            eng.check(not rest, 'packet-after-DISCONNECT', 'after DISCONNECT the client still wrote %s' % rest,
                      sig='packet-after-DISCONNECT:' + ','.join(sorted(set(x[1] for x in rest))))
            break


def h_closing(eng, params):
    import mqtt.error as merr
    profile = params['profile']
    w, c, req = scen.busy_prefix(eng, profile, 'connected', keepalive=params['keepalive'], jitter_pool=fixed_jitter(), window=2)
    if profile != 'subscriber':
        # the window (2) is full: this one is held back
        w.begin_step('publish-held-back')
        w.api(c, 'publish', 'held', scen.topic(eng, 0x68), mkbytearray(eng, [8]), qos=1)
    disconnect_steps = set()
    how = params['how']
    if how == 'disconnect':
        st = w.begin_step('disconnect')
        disconnect_steps.add(st)
        r, e = w.call(c, 'disconnect')
        w.after_api()
        eng.check(e is None, 'disconnect-raised')
        eng.count('disconnect')
    else:
        w.begin_step('rx:corrupt')
        w.rx_list(c, [0x00, 0x00])
        eng.check(c.t.abort_called >= 1, 'corrupt-not-aborted')
        eng.count('abort')

    def step(kind, phase):
        st = w.begin_step(kind)
        if kind == 'publish':
            w.api(c, 'publish', 'x', scen.topic(eng, 0x78), mkbytearray(eng, [1]), qos=eng.int('qos', 0, 2))
        elif kind == 'subscribe':
            w.api(c, 'subscribe', 'x', scen.topic(eng, 0x78), 1)
        elif kind == 'unsubscribe':
            w.api(c, 'unsubscribe', 'x', scen.topic(eng, 0x78))
        elif kind == 'connect':
            scen.connect(w, c)
        elif kind == 'setWindowSize':
            w.call(c, 'setWindowSize', eng.int('window', 1, 16))
        elif kind == 'disconnect':
            r, e = w.call(c, 'disconnect')
            if e is None:
                disconnect_steps.add(st)
            else:
                eng.count('disconnect-refused')
                if isinstance(e, merr.MQTTStateError):
                    w.events = [x for x in w.events if not (x.kind == 'exc' and x.a[1] is e)]
        else:
            w.advance(eng.real('dt', 0, 30))
            if [x for x in w.events if x.step == st and x.kind == 'write']:
                eng.count('timer-while-closing' if phase == 'closing' else 'timer-after-loss')
        w.after_api()
        if kind != 'advance':
            eng.count('api-while-closing' if phase == 'closing' else 'api-after-loss')
    for i in range(params['k']):
        kind = params['first'] if (i == 0 and params.get('first')) else eng.choose(CLOSING_STEPS, 'closing-step')
        eng.note('closing step %d: %s' % (i, kind))
        step(kind, 'closing')
    st = w.begin_step('lose')
    c.lose_step = st
    w.lose(c, clean=(how == 'disconnect'))
    for i in range(params['k2']):
        kind = eng.choose(AFTER_STEPS, 'after-step')
        eng.note('after-loss step %d: %s' % (i, kind))
        step(kind, 'after')
    w.begin_step('run-out')
    w.advance(2000)
    check_stream(eng, w, c, 311, disconnect_steps, 1)
    check_no_exceptions(w)
    return w.trace()


GEN_STEPS = ('publish', 'subscribe', 'unsubscribe', 'ACK', 'inbound', 'advance', 'disconnect', 'lose-reconnect')


def h_general(eng, params):
    """ordinary histories (requests, acknowledgements, inbound traffic, time, disconnect, loss and reconnect)"""
    profile = params['profile']
    flow = Flow(eng, profile, clean=eng.bool('clean') if params.get('symclean') else True, ver=params['ver'], keepalive=params['keepalive'])
    w = flow.w
    c0 = w.build(0)
    flow.c = c0
    c0.clean = True
    c0.window = 1
    dsteps = {}
    csteps = {}
    # before connect(): requests must be refused silently
    if params.get('before'):
        st = w.begin_step('publish-before-connect')
        w.api(c0, 'publish', 'x', scen.topic(eng), mkbytearray(eng, [1]), qos=1)
        w.begin_step('advance-before-connect')
        w.advance(5)
    st = w.begin_step('connect')
    csteps[c0.idx] = st
    extra = {}
    if params.get('stray_will_args'):
        # a will QoS / retain flag given without a will must not make the CONNECT malformed
        extra = {'willQoS': eng.int('willQoS', 0, 2), 'willRetain': eng.bool('willRetain')}
    c0.connect_tr = scen.connect(w, c0, params['keepalive'], True, params['ver'], **extra)
    c0.connect_step = st
    c0.connack_step = None
    flow.connack(0)
    flow.set_window(2)
    for i in range(params['k']):
        c = flow.c
        kinds = [k for k in GEN_STEPS if not (profile == 'publisher' and k in ('subscribe', 'unsubscribe', 'inbound'))
                 and not (profile == 'subscriber' and k == 'publish')]
        kind = params['first'] if (i == 0 and params.get('first') in kinds) else eng.choose(kinds, 'step')
        eng.note('step %d: %s' % (i, kind))
        if c.lost and kind != 'lose-reconnect':
            continue
        if kind == 'publish':
            flow.publish()
        elif kind == 'subscribe':
            flow.subscribe(eng.choose(('str', 'list', 'empty'), 'shape'))
        elif kind == 'unsubscribe':
            flow.unsubscribe(eng.choose(('str', 'empty'), 'shape'))
        elif kind == 'ACK':
            ak = eng.choose(('PUBACK', 'PUBREC', 'PUBCOMP', 'SUBACK', 'UNSUBACK', 'PINGRESP'), 'ack')
            if ak in ('PUBACK', 'PUBREC', 'PUBCOMP'):
                c05.deliver_ack(flow, ak)
            else:
                flow.rx(ak)
        elif kind == 'inbound':
            flow.rx(eng.choose(('PUBLISH1', 'PUBLISH2', 'PUBREL'), 'inbound'))
        elif kind == 'advance':
            flow.advance(hi=30)
        elif kind == 'disconnect':
            e = flow.disconnect()
            if e is None:
                dsteps.setdefault(c.idx, set()).add(len(w.steps) - 1)
            else:
                w.events = [x for x in w.events if not (x.kind == 'exc' and x.a[1] is e)]
        else:
            if not c.lost:
                flow.lose()
            flow.open()
            csteps[flow.c.idx] = flow.c.connect_step
            eng.count('second-connection')
    flow.advance(50)
    for c in w.conns:
        if not c.lost and (c.t.lose_called or c.t.abort_called):
            flow.lose(c=c)
    flow.advance(500)
    for c in w.conns:
        check_stream(eng, w, c, params['ver'], dsteps.get(c.idx, set()), csteps.get(c.idx))
    return flow.finish()


def h_resume(eng, params):
    """persistent session with a full window and messages of every QoS queued behind it, resumed on a new connection"""
    flow = Flow(eng, params['profile'], clean=False, ver=params['ver'])
    w = flow.w
    flow.open()
    c1 = flow.c
    flow.set_window(1)
    flow.publish(qos=2)
    for j in range(params['queued']):
        flow.publish()                      # QoS symbolic 0..2: held back behind the full window
    for i in range(params['k']):
        kind = eng.choose(('PUBREC', 'PUBCOMP', 'advance', 'nothing'), 'step')
        if kind == 'advance':
            flow.advance(hi=30)
        elif kind != 'nothing':
            c05.deliver_ack(flow, kind)
    flow.lose()
    flow.open(connack=False, clean=False)
    if eng.choose(2, 'window-on-new-protocol'):
        flow.set_window()
    flow.connack(1)
    eng.count('resumed-with-queue')
    flow.advance(40)
    flow.lose()
    flow.advance(200)
    for c in w.conns:
        check_stream(eng, w, c, params['ver'], set(), c.connect_step)
    return flow.finish()


HARNESSES = {'closing': h_closing, 'general': h_general, 'resume': h_resume}


def shards(tier):
    T = tier == 'thorough'
    out = []
    for profile in ('pubsubs', 'publisher', 'subscriber'):
        for keepalive in (0, 5):
            for how in ('disconnect', 'abort'):
                for first in CLOSING_STEPS:
                    out.append(('closing', {'profile': profile, 'keepalive': keepalive, 'how': how, 'k': 3 if how == 'disconnect' else 2,
                                            'k2': 2 if T else 1, 'first': first}))
        for ver in (31, 311):
            for first in GEN_STEPS:
                out.append(('general', {'profile': profile, 'ver': ver, 'keepalive': 5 if ver == 31 else 0, 'k': 4 if (T and profile == 'pubsubs') else 3, 'first': first,
                                        'before': ver == 311, 'stray_will_args': first in ('advance', 'disconnect')}))
    for profile in ('publisher', 'pubsubs'):
        for ver in (31, 311):
            out.append(('resume', {'profile': profile, 'ver': ver, 'queued': 2, 'k': 2 if T else 1}))
    return out


META = {
    'rule': '(closing) connected client with one request of every kind pending, then disconnect() or an abort-provoking packet, k free steps from {publish(QoS symbolic), '
            'subscribe, unsubscribe, connect, disconnect, advance(dt symbolic)} before the loss is reported, the loss, k2 steps after it, 2000 s; (general) histories of k '
            'steps over requests, acknowledgements, inbound traffic, time, disconnect, loss + new connection; every transport stream is parsed by the strict reference decoder',
    'bounds': {'quick': 'resume: persistent session, window 1, one QoS 2 publish in flight and 2 publishes of symbolic QoS queued, 1 step, loss, rebuilt protocol (optional setWindowSize), CONNACK, 40 s; closing: one more publish held back by a full window, steps include setWindowSize(symbolic); k=3 after disconnect(), k=2 after an abort, k2=1, keepalive 0/5, 3 profiles; general: k=3, both protocol versions', 'thorough': 'closing: k2=2; general: k=4 for pubsubs; resume: 2 steps'},
    'stubs': ['fake transport with asynchronous loss', 'twisted task.Clock', 'jitter: fixed sequence'],
    'outside': ['connect() called on a protocol object after its connection was reported lost (a Twisted protocol instance serves one connection)',
                'writes between abortConnection() and the loss report (the statement restricts only what follows DISCONNECT and what follows the loss)'],
    'assumptions': ['after a refusing CONNACK the broker closes the connection before the application calls connect() again'],
}

MANIFEST = {
    'text': 'Every transport stream of every explored history - including API calls and timer expiries in the interval between disconnect()/abort and the asynchronous loss report, which the test suite\'s synchronous transport hides - is parsed by the independent strict reference decoder: complete client-to-broker packets only, nothing before connect(), exactly one leading CONNECT, DISCONNECT only from disconnect() together with loseConnection() and last in the stream, nothing after the loss.',
    'design_ref': '7 C18',
    'note': 'trusted: z3, engine, reference codec, Twisted.',
}
