"""C16 - malformed or unexpected input is contained"""
from fractions import Fraction
from .. import refcodec as ref
from .. import scen
from ..world import World, mkbytes, blist, cplist, all_eq, as_int, check_no_exceptions

PROPERTY = 'C16'
BUDGET = {'quick': {'seconds': 1200, 'xreplay_every': 60}, 'thorough': {'seconds': 6000, 'xreplay_every': 600}}
NONTRIVIAL = {'quick': ['abort', 'justified.onPublish', 'justified.deferred', 'settled-after-abort', 'ignored']}


def _idx(x):
    return x if isinstance(x, int) else x.__index__()


def frames_of(stream):
    return ref.split_frames(list(stream), lenient=True)[0]


def publish_frame_fields(first, body):
    """lenient reference reading of a PUBLISH frame; None if not a complete PUBLISH"""
    if first // 16 != 3:
        return None
    q = (first // 2) % 4
    if q == 3:
        return None
    if len(body) < 2:
        return None
    tl = body[0] * 256 + body[1]
    if tl + 2 + (2 if q else 0) > len(body):
        return None
    tl = _idx(tl)
    try:
        cps = ref.utf8_decode(body[2:2 + tl])
    except ref.Malformed:
        return None
    i = 2 + tl
    mid = None
    if q:
        mid = body[i] * 256 + body[i + 1]
        i += 2
    return {'qos': q, 'dup': (first // 8) % 2, 'retain': first % 2, 'topic': cps, 'msgId': mid, 'payload': body[i:]}


def ack_frame_id(first, body, ptype):
    if first // 16 != ptype or len(body) < 2:
        return None
    return body[0] * 256 + body[1]


def matches_delivery(f, args):
    topic, payload, qos, dup, retain, mid = args
    c = all_eq(cplist(topic), f['topic'])
    if c is False:
        return False
    c2 = all_eq(blist(payload), f['payload'])
    if c2 is False:
        return False
    conds = [c, c2, qos == f['qos'], as_int(dup) == f['dup'], as_int(retain) == f['retain']]
    if f['msgId'] is None:
        if mid is not None:
            return False
    else:
        if mid is None:
            return False
        conds.append(mid == f['msgId'])
    r = True
    for x in conds:
        if x is True:
            continue
        if x is False:
            return False
        r = x if r is True else (r & x)
    return r


def justify_onpublish(eng, frames, args, stored):
    """is this onPublish call justified by a well-formed packet among `frames` (forks)"""
    qos = args[2]
    if qos == 2:
        # needs a PUBREL with the identifier, and the message either stored before or sent earlier in the stream
        for k, (first, body, raw) in enumerate(frames):
            rid = ack_frame_id(first, body, ref.PUBREL)
            if rid is None:
                continue
            if rid == args[5]:
                if stored is not None and args[5] == stored['msgId']:
                    if matches_delivery({'qos': 2, 'dup': 0, 'retain': 0, 'topic': stored['topic'], 'msgId': stored['msgId'],
                                         'payload': stored['payload']}, args):
                        return True
                for (f2, b2, r2) in frames[:k]:
                    pf = publish_frame_fields(f2, b2)
                    if pf is not None and pf['qos'] == 2 and matches_delivery(pf, args):
                        return True
        return False
    for (first, body, raw) in frames:
        pf = publish_frame_fields(first, body)
        if pf is None:
            continue
        if pf['qos'] == 2:
            continue
        if matches_delivery(pf, args):
            return True
    return False


def justify_success(eng, frames, tag, tr, value, prefix_state):
    mid = tr.msgId
    if tag == 'connect':
        for (first, body, raw) in frames:
            if first // 16 == 2 and len(body) >= 2 and body[1] == 0:
                if as_int(value) == body[0] % 2:
                    return True
        return False
    if tag in ('pub1', 'pub2', 'pub3'):
        # a publish is settled by acknowledgements bearing its identifier: PUBACK while it awaits its first
        # acknowledgement, or PUBCOMP once a PUBREC was seen (C05 leaves the pairing of acknowledgement type
        # and QoS to its quantifier; nothing more is demanded here)
        seen_rec = (tag == 'pub3')
        for (first, body, raw) in frames:
            i = ack_frame_id(first, body, ref.PUBACK)
            if i is not None and not seen_rec and i == mid and value == mid:
                return True
            i = ack_frame_id(first, body, ref.PUBREC)
            if i is not None and i == mid:
                seen_rec = True
                continue
            i = ack_frame_id(first, body, ref.PUBCOMP)
            if i is not None and seen_rec and i == mid and value == mid:
                return True
        return False
    if tag == 'sub':
        for (first, body, raw) in frames:
            i = ack_frame_id(first, body, ref.SUBACK)
            if i is not None and i == mid:
                g = body[2:]
                if isinstance(value, list) and len(value) == len(g) and all(
                        (v[0] == b % 128) and (as_int(v[1]) == b // 128) for v, b in zip(value, g)):
                    return True
        return False
    if tag == 'unsub':
        for (first, body, raw) in frames:
            i = ack_frame_id(first, body, ref.UNSUBACK)
            if i is not None and i == mid and value == mid:
                return True
        return False
    return False


def run_and_check(eng, w, c, req, stream, label_extra=''):
    """deliver `stream` in one chunk, then loss (if aborted) and a long advance; all C16 monitors"""
    mark = len(w.events)
    rx_step = w.begin_step('rx-arbitrary')
    delivered = w.rx_list(c, stream)
    frames = frames_of(stream) if delivered else []
    aborted = c.t.abort_called > 0
    # application-visible effects of this step must be justified by a well-formed packet
    for e in w.events[mark:]:
        if e.kind == 'onPublish':
            ok = justify_onpublish(eng, frames, e.a, getattr(c, 'stored_rx', None))
            eng.check(ok, 'unjustified-onPublish', 'onPublish%r not justified by a well-formed packet' % (e.a,))
            eng.count('justified.onPublish')
        elif e.kind == 'fire':
            tr, ok, v = e.a
            if ok:
                j = justify_success(eng, frames, tr.tag, tr, v, None)
                eng.check(j, 'unjustified-success', 'Deferred of %s succeeded with %r without a justifying packet' % (tr.tag, v),
                          sig='unjustified-success:' + tr.tag)
                eng.count('justified.deferred')
    eng.check(c.t.lose_called == 0, 'reaction-stronger-than-abort', 'loseConnection() called on malformed input')
    if aborted:
        eng.count('abort')
        w.begin_step('loss-after-abort')
        w.lose(c, clean=False)
    elif not [e for e in w.events[mark:] if e.kind in ('onPublish', 'fire', 'write')]:
        eng.count('ignored')
    w.begin_step('run-out')
    w.advance(1000)
    w.begin_step('run-out-2')
    w.advance(100000)
    check_no_exceptions(w)
    for tr in w.tracked:
        eng.check(len(tr.fired) <= 1, 'deferred-fired-twice', '%s fired %d times' % (tr.tag, len(tr.fired)), sig='deferred-fired-twice:' + tr.tag)
    if aborted and getattr(c, 'clean', True):
        for tr in w.tracked:
            eng.check(len(tr.fired) == 1, 'left-hanging', 'Deferred of %s still pending after the abort and the loss' % tr.tag,
                      sig='left-hanging:' + tr.tag)
        eng.count('settled-after-abort')
    return w.trace()


def jitter():
    # timer order is not the subject here (C08/C13): a fixed jitter sequence
    return [Fraction(k % 15 + 1, 16) for k in range(512)]


def h_arbitrary(eng, params):
    w, c, req = scen.busy_prefix(eng, params['profile'], params['state'], keepalive=params.get('keepalive', 0),
                                 clean=params.get('clean', True), jitter_pool=jitter())
    n = params['n']
    t = params.get('type')
    if t is None:
        first = eng.int('first', 0, 255)
    else:
        first = t * 16 + eng.int('flags', 0, 15)
    stream = [first] + [eng.int('b', 0, 255) for _ in range(n - 1)]
    return run_and_check(eng, w, c, req, stream)


def h_mutated(eng, params):
    """a valid broker packet with one byte replaced, or truncated / extended"""
    w, c, req = scen.busy_prefix(eng, params['profile'], params['state'], keepalive=params.get('keepalive', 0), jitter_pool=jitter())
    kind = params['kind']
    k = params.get('size', 1)
    pkt, fields = scen.broker_packet(eng, kind, ntopic=k, npayload=k, ngranted=k)
    # identifiers of the pending requests are interesting: let the packet address one of them
    m = params['mutation']
    if m == 'byte':
        pos = eng.choose(len(pkt), 'pos')
        pkt = list(pkt)
        pkt[pos] = eng.int('mut', 0, 255)
    elif m == 'truncate':
        k = eng.choose(range(1, min(len(pkt), 4) + 1), 'cut')
        # keep the declared length: the body is short
        pkt = pkt[:len(pkt) - k] + []
        pkt = list(pkt)
    elif m == 'shorten':
        # the remaining length is reduced as well: a shorter, self-consistent frame
        k = eng.choose(range(1, min(len(pkt) - 2, 3) + 1), 'cut')
        pkt = [pkt[0], pkt[1] - k] + pkt[2:len(pkt) - k]
    elif m == 'extend':
        k = eng.choose(range(1, 3), 'ext')
        pkt = [pkt[0], pkt[1] + k] + pkt[2:] + [eng.int('ext', 0, 255) for _ in range(k)]
    tail = ref.enc_pingresp() if m == 'truncate' else []
    if params.get('then_pubrel') and fields.get('msgId') is not None:
        # the broker goes on with the exchange the (possibly corrupted) PUBLISH belonged to
        tail = tail + ref.enc_ack(ref.PUBREL, fields['msgId'])
    return run_and_check(eng, w, c, req, list(pkt) + tail)


HARNESSES = {'arbitrary': h_arbitrary, 'mutated': h_mutated}

STATES = [('pubsubs', 'idle', 0), ('pubsubs', 'connecting', 0), ('pubsubs', 'reconnecting', 0), ('publisher', 'reconnecting', 0), ('pubsubs', 'connected', 0), ('pubsubs', 'connected', 5),
          ('publisher', 'connecting', 0), ('publisher', 'connected', 0), ('subscriber', 'connecting', 3), ('subscriber', 'connected', 0)]


def shards(tier):
    T = tier == 'thorough'
    out = []
    for (profile, state, ka) in STATES:
        full = (profile == 'pubsubs' and state == 'connected')
        for n in ((2, 3, 4, 5, 6) if T else (2, 3, 4)):
            if n >= (6 if T else 4) and not full:
                continue
            for t in range(16):
                out.append(('arbitrary', {'profile': profile, 'state': state, 'keepalive': ka, 'n': n, 'type': t}))
        if full or T:
            for n in ((5, 6) if not T else (7,)):
                if T and not full:
                    continue
                for t in (2, 3, 4, 5, 6, 7, 9, 11, 13):
                    out.append(('arbitrary', {'profile': profile, 'state': state, 'keepalive': ka, 'n': n, 'type': t}))
        if state == 'connected' and profile != 'publisher':
            for kind in ('PUBLISH1', 'PUBLISH2'):
                out.append(('mutated', {'profile': profile, 'state': state, 'keepalive': ka, 'kind': kind, 'mutation': 'byte', 'size': 1, 'then_pubrel': True}))
        if state != 'idle':
            for kind in scen.BROKER_KINDS:
                for m in ('byte', 'truncate', 'shorten', 'extend'):
                    if kind == 'PINGRESP' and m == 'shorten':
                        continue
                    if not T and not full and m in ('shorten', 'extend') and profile != 'subscriber':
                        continue
                    out.append(('mutated', {'profile': profile, 'state': state, 'keepalive': ka, 'kind': kind, 'mutation': m,
                                            'size': 2 if (T or (full and ka == 0 and kind.startswith('PUBLISH'))) else 1}))
    out.append(('arbitrary', {'profile': 'pubsubs', 'state': 'connected', 'keepalive': 0, 'n': 4, 'clean': False}))
    return out


META = {
    'rule': 'one path per feasible branch combination of dataReceived on the symbolic bytes; non-trivial = paths that aborted, paths whose '
            'effects were justified by a reference-decoded packet, paths where decode failed',
    'bounds': {
        'quick': '(a) N symbolic bytes in one chunk, N<=4 in every profile/state (idle, connecting, connecting on a resumed persistent session with requests carried over, connected, connected with keepalive) and '
                 'N<=6 for the connected pubsubs client with a QoS1 PUBLISH, two QoS2 PUBLISH (one in PUBREL stage), SUBSCRIBE, UNSUBSCRIBE and a '
                 'stored inbound QoS2 message pending (first byte: every type nibble x symbolic flags); (b) every broker packet kind with symbolic '
                 'fields (1 topic character, 1 payload byte, 1 granted code; 2 each for PUBLISH against the busy pubsubs client) with one byte position replaced by a free byte, truncated by 1..4 '
                 'bytes, consistently shortened by 1..3, extended by 1..2 symbolic bytes; a mutated PUBLISH followed by a well-formed PUBREL bearing its identifier; afterwards loss (if aborted) and 101000 s of virtual time',
        'thorough': 'N<=5 everywhere, N<=7 for the busy connected pubsubs client; mutations in every profile/state',
    },
    'stubs': ['fake transport (loss reported as a separate event after abort)', 'twisted task.Clock', 'jitter: fixed sequence k/16 (timer order is the subject of C08/C13)'],
    'outside': ['streams longer than 7 bytes other than mutated packets', 'delivery split into several chunks (C03)',
                'strictness beyond the statement: reserved flag bits and over-long acknowledgement bodies are not required to be rejected'],
    'assumptions': ['no bytes are delivered after abortConnection()', 'clean session for the settlement obligation'],
}

MANIFEST = {
    'text': 'Arbitrary symbolic byte strings and single-byte mutations/truncations/extensions of every broker packet kind are fed to the real dataReceived in every profile and protocol state with requests of every kind pending; each path covers all byte values of its branch class. Obligations: no exception leaves dataReceived or a timer, no loseConnection, every onPublish call and Deferred success is justified by a packet the independent reference reader finds in the same bytes, and after abort+loss every pending Deferred is settled.',
    'design_ref': '7 C16',
    'note': 'trusted: z3, engine, reference codec (justification oracle), Twisted Clock/Deferred; environment model of DESIGN.md section 3.',
}
