"""C10 - send window bounds in-flight publishes; queue is FIFO and strands no message"""
from .. import refcodec as ref
from ..flow import Flow
from ..world import all_eq, as_int, lnot
from . import c05

PROPERTY = 'C10'
BUDGET = {'quick': {'seconds': 1200, 'xreplay_every': 100}, 'thorough': {'seconds': 6000, 'xreplay_every': 2000}}
NONTRIVIAL = {'quick': ['early-publish', 'window-full', 'held-back', 'released-by-ack', 'window-changed', 'resumed', 'idle-and-complete', 'mixed-qos-order']}

KINDS = ('publish', 'PUBACK', 'PUBREC', 'PUBCOMP', 'setWindowSize', 'reconnect')


def first_sends(flow):
    """per publish request (matched by its unique topic): list of (step, conn, packet) in write order"""
    out = {}
    for (st, c, p) in flow.all_packets():
        if p['type'] != 'PUBLISH':
            continue
        for r in flow.reqs:
            if r.kind == 'publish' and all_eq(p['topic'], r.topic) is True:
                out.setdefault(r.order, []).append((st, c, p))
    return out


def monitor(flow):
    eng, w = flow.eng, flow.w
    pubs = [r for r in flow.reqs if r.kind == 'publish']
    for r in pubs:
        eng.check(r.tr is not None and not r.failed_at_once(), 'publish-rejected', 'publish() was refused (window sizes never reject a publish)')
    sends = first_sends(flow)
    # ---- first transmissions: once each, DUP=0, in call order, a prefix of the accepted calls
    order = []
    for (st, c, p) in flow.all_packets():
        if p['type'] != 'PUBLISH':
            continue
        for r in pubs:
            if all_eq(p['topic'], r.topic) is True:
                if r.order not in [o for (o, s) in order]:
                    order.append((r.order, st))
                    eng.check(p['dup'] == 0, 'first-transmission-dup', 'first transmission of a PUBLISH carries DUP=1')
                elif p['qos'] == 0:
                    eng.check(False, 'qos0-sent-twice', 'QoS 0 PUBLISH written twice')
    seq = [o for (o, s) in order]
    eng.check(seq == sorted(seq), 'fifo-order', 'first transmissions out of call order: %s' % seq)
    accepted = [r.order for r in pubs if r.accepted()]
    eng.check(seq == accepted[:len(seq)], 'fifo-prefix', 'a later publish was transmitted while an earlier one is still held back: sent %s of %s' % (seq, accepted))
    if len(set(eng.valid(r.qos == 0) for r in pubs if r.order in seq)) > 1:
        eng.count('mixed-qos-order')
    # ---- per step: in-flight bound and no stranding
    nsteps = len(w.steps)
    first_step = dict(order)
    answered = {}      # order -> step of PUBACK/PUBREC
    released = {}      # order -> step of PUBCOMP (QoS 2 exchange finished)
    window_at = {}     # step -> window in force on the connection that sent
    for st in range(nsteps):
        m = flow.meta.get(st, {})
        # acknowledgements delivered in this step
        if m.get('kind') == 'rx' and m.get('delivered'):
            f = m['fields']
            for r in pubs:
                if r.order in first_step and first_step[r.order] < st and f.get('msgId') is not None and r.msgId is not None:
                    if f['kind'] in ('PUBACK', 'PUBREC') and r.order not in answered and f['msgId'] == r.msgId:
                        answered[r.order] = st
                        if f['kind'] == 'PUBACK':
                            released[r.order] = st
                    elif f['kind'] == 'PUBCOMP' and r.order in answered and r.order not in released and f['msgId'] == r.msgId:
                        released[r.order] = st
        inflight = [o for o in seq if first_step[o] <= st and not (o in answered and answered[o] <= st)
                    and not eng.valid(flow.reqs[o].qos == 0)]
        inflight = [o for o in inflight if not (flow.reqs[o].qos == 0)]
        if inflight:
            newest = max(inflight, key=lambda o: first_step[o])
            wnd = flow.window_when[first_step[newest]]
            eng.check(len(inflight) <= wnd, 'window-exceeded', '%d QoS>0 PUBLISH packets await their first acknowledgement after step %d (%s)' % (
                len(inflight), st, w.steps[st][0]), sig='window-exceeded')
            if eng.feasible(len(inflight) == wnd):
                eng.count('window-full')
        # no stranding: connection up, nothing outstanding -> everything accepted so far has been written
        c = flow.conn_at[st] if st in flow.conn_at else None
        if c is not None and c.connack_step is not None and c.connack_step <= st and not (c.lost and c.lose_step <= st):
            open_ex = [o for o in seq if first_step[o] <= st and not (o in released and released[o] <= st)
                       and not (flow.reqs[o].qos == 0)]
            if not open_ex:
                acc = [r.order for r in pubs if r.accepted() and r.step <= st]
                sent = [o for o in seq if first_step[o] <= st]
                eng.check(sent == acc, 'stranded-message', 'connection up, no QoS>0 exchange outstanding after step %d (%s), but accepted %s and transmitted %s' % (
                    st, w.steps[st][0], acc, sent), sig='stranded-message')
                if acc:
                    eng.count('idle-and-complete')
    if any(answered.get(o) is not None and any(first_step.get(o2) == answered[o] for o2 in seq) for o in answered):
        eng.count('released-by-ack')
    if len(accepted) > len(seq):
        eng.count('held-back')


def h_window(eng, params):
    flow = Flow(eng, params['profile'], clean=not params.get('persistent', False))
    flow.window_when = {}
    flow.conn_at = {}
    early = params.get('early', 0)
    flow.open(connack=not early)

    def mark():
        for st in range(len(flow.w.steps)):
            if st not in flow.window_when:
                flow.window_when[st] = flow.c.window
                flow.conn_at[st] = flow.c
    mark()
    npub = 0
    if early:
        # requests issued between connect() and CONNACK are accepted too, and must neither be dropped nor overtake
        for j in range(early):
            flow.publish()
            npub += 1
            mark()
        flow.connack(0)
        mark()
        eng.count('early-publish')
    flow.set_window()
    mark()
    for i in range(params['k']):
        kinds = [k for k in KINDS if not (k == 'publish' and npub >= params['maxpub']) and not (k == 'reconnect' and not params.get('persistent'))]
        forced = params.get('first') if i == 0 else params.get('second') if i == 1 else None
        if forced is not None and forced not in kinds:
            return None
        kind = forced if forced is not None else eng.choose(kinds, 'step')
        eng.note('free step %d: %s' % (i, kind))
        if kind == 'publish':
            flow.publish()
            npub += 1
        elif kind == 'setWindowSize':
            flow.set_window()
            eng.count('window-changed')
        elif kind == 'reconnect':
            flow.lose()
            mark()
            flow.open(connack=False)
            mark()
            if eng.choose(2, 'window-on-new-protocol'):
                flow.set_window()
                mark()
            flow.connack(1)
            eng.count('resumed')
        else:
            c05.deliver_ack(flow, kind)
        mark()
    monitor(flow)
    return flow.finish()


HARNESSES = {'window': h_window}


def shards(tier):
    T = tier == 'thorough'
    out = []
    for profile in ('publisher', 'pubsubs'):
        for persistent in (False, True):
            for first in KINDS:
                for second in KINDS:
                    if 'reconnect' in (first, second) and not persistent:
                        continue
                    out.append(('window', {'profile': profile, 'persistent': persistent, 'k': 6 if T else 4, 'maxpub': 5 if T else 3,
                                           'first': first, 'second': second}))
                    if second in ('publish', 'PUBACK', 'PUBREC', 'setWindowSize') or T:
                        out.append(('window', {'profile': profile, 'persistent': persistent, 'k': 4 if T else 3, 'maxpub': 5 if T else 4,
                                               'first': first, 'second': second, 'early': 2}))
    return out


META = {
    'rule': 'connected client, setWindowSize(w symbolic), then k free steps from {publish(QoS symbolic 0..2), PUBACK/PUBREC/PUBCOMP with symbolic identifier, '
            'setWindowSize(w symbolic), persistent loss + rebuilt protocol (+ setWindowSize) + CONNACK}; monitors computed from the wire log after every step',
    'bounds': {'quick': 'k=4 free steps with at most 3 publishes (k=3 after 2 publishes issued before CONNACK); window 1..16 symbolic at every change; publisher and pubsubs; clean and persistent sessions',
               'thorough': 'k=6 with at most 5 publishes'},
    'stubs': ['fake transport', 'twisted task.Clock (no time passes: retransmissions are the subject of C08)', 'jitter: fixed sequence'],
    'outside': ['histories longer than k steps', 'timer expiries interleaved with window changes (C08/C13)'],
    'assumptions': ['acknowledgement types fit the exchange they may address'],
}

MANIFEST = {
    'text': 'All histories of k free steps mixing publishes of symbolic QoS, acknowledgements with symbolic identifiers, window changes to symbolic sizes and persistent-session reconnects are run on the real client; after every step the in-flight count, FIFO order of first transmissions and the no-stranding condition are computed from the reference-parsed wire log alone and compared (validity over the symbolic window values).',
    'design_ref': '7 C10',
    'note': 'trusted: z3, engine, reference codec, Twisted.',
}
