"""C07 - subscribe()/unsubscribe(): one request per call, matched by id, window enforced"""
from .. import refcodec as ref
from ..flow import Flow
from ..world import all_eq, as_int, lnot, mkstr, cplist, blist

PROPERTY = 'C07'
BUDGET = {'quick': {'seconds': 1200, 'xreplay_every': 50}, 'thorough': {'seconds': 6000, 'xreplay_every': 1000}}
NONTRIVIAL = {'quick': ['subscribe.accepted', 'unsubscribe.accepted', 'window-refused', 'suback.matched', 'unsuback.matched', 'stray-ack',
                        'retransmitted', 'reconnect.clean', 'reconnect.persistent', 'window-shrunk-below-pending', 'settled-at-end', 'failed-by-loss']}

KINDS = ('subscribe', 'unsubscribe', 'SUBACK', 'UNSUBACK', 'advance', 'setWindowSize', 'reconnect')
SHAPES_S = ('str', 'tuple', 'list')
SHAPES_U = ('str', 'list')


def pending_of(flow, kind, before_step):
    """requests of `kind` accepted before `before_step` and not fired before it"""
    out = []
    for r in flow.reqs:
        if r.kind == kind and r.step < before_step and r.accepted():
            if not any(s < before_step for (s, ok, v) in r.tr.fired):
                out.append(r)
    return out


def monitor(flow):
    import mqtt.error as merr
    eng, w = flow.eng, flow.w
    acked_steps = set()
    for r in flow.reqs:
        if r.kind not in ('subscribe', 'unsubscribe'):
            continue
        T = 'SUBSCRIBE' if r.kind == 'subscribe' else 'UNSUBSCRIBE'
        eng.check(r.tr is not None, 'call-raised', '%s() raised' % r.kind)
        if r.tr is None:
            continue
        pend = pending_of(flow, r.kind, r.step)
        wnd = r.window_at_call
        pk = flow.packets(r.conn, r.step)
        if r.failed_at_once():
            err = r.tr.fired[0][2].value
            eng.check(isinstance(err, merr.MQTTWindowError), 'unexpected-refusal', '%s() with valid arguments failed with %s' % (r.kind, type(err).__name__))
            if isinstance(err, merr.MQTTWindowError):
                eng.check(len(pend) >= wnd, 'refused-below-window', '%s() refused with %d pending and a larger window' % (r.kind, len(pend)),
                          sig='refused-below-window:' + r.kind)
                eng.count('window-refused')
            eng.check(not pk, 'refused-call-wrote', 'refused %s() wrote a packet' % r.kind)
            continue
        # accepted
        eng.check(len(pend) < wnd, 'accepted-beyond-window', '%s() accepted with %d requests pending and window not larger' % (r.kind, len(pend)),
                  sig='accepted-beyond-window:' + r.kind)
        if eng.feasible(len(pend) >= wnd):
            pass
        eng.count(r.kind + '.accepted')
        mine = [p for p in pk if p['type'] == T]
        eng.check(len(pk) == 1 and len(mine) == 1, 'one-packet-per-call', '%s() wrote %s' % (r.kind, [p['type'] for p in pk]))
        if len(mine) == 1:
            p = mine[0]
            eng.check(p['msgId'] == r.tr.msgId, 'wire-id-vs-deferred-id')
            eng.check(p['dup'] == 0, 'first-transmission-dup')
            if r.kind == 'subscribe':
                eng.check(len(p['topics']) == len(r.topics) and all(
                    all_eq(t, t0) is True and (q == q0) for (t, q), (t0, q0) in zip(p['topics'], r.topics)), 'topics-on-wire',
                    'SUBSCRIBE does not name the topics/QoS of the call in order')
            else:
                eng.check(len(p['topics']) == len(r.topics) and all(all_eq(t, t0) is True for t, t0 in zip(p['topics'], r.topics)), 'topics-on-wire',
                          'UNSUBSCRIBE does not name the topics of the call in order')
            # identifier not in use by any unfinished request
            for o in flow.reqs:
                if o is not r and o.step < r.step and o.tr is not None and o.accepted() and o.msgId is not None:
                    if not any(s < r.step for (s, ok, v) in o.tr.fired):
                        eng.check(r.tr.msgId != o.msgId, 'identifier-in-use')
        # retransmissions carry the same content
        later = [(st, p) for (st, c, p) in flow.all_packets([r.conn]) if st > r.step and p['type'] == T and p['msgId'] == r.msgId]
        if later:
            eng.count('retransmitted')
        # ---- when must it fire, and with what
        expect = None
        lost_step = getattr(r.conn, 'lose_step', None)
        for (st, c, f) in flow.rx_log:
            if st <= r.step or c is not r.conn:
                continue
            if f['kind'] == ('SUBACK' if r.kind == 'subscribe' else 'UNSUBACK') and f['msgId'] == r.msgId:
                expect = (st, f)
                acked_steps.add(st)
                break
        fired = r.tr.fired
        eng.check(len(fired) <= 1, 'fired-twice', '%s Deferred fired %d times' % (r.kind, len(fired)))
        if expect is not None:
            st, f = expect
            eng.check(len(fired) == 1 and fired[0][0] == st and fired[0][1], 'fired-on-the-ack', '%s Deferred must succeed in step %d; fired %s' % (
                r.kind, st, [(s, ok) for (s, ok, v) in fired]), sig='fired-on-the-ack:' + r.kind)
            if len(fired) == 1 and fired[0][1]:
                v = fired[0][2]
                if r.kind == 'subscribe':
                    g = f['granted']
                    eng.check(isinstance(v, list) and len(v) == len(g) and all((x[0] == b % 128) and (as_int(x[1]) == b // 128) for x, b in zip(v, g)),
                              'suback-value', 'callback value is not the (granted QoS, failure flag) list of the SUBACK')
                    eng.count('suback.matched')
                else:
                    eng.check(v == r.msgId, 'unsuback-value')
                    eng.count('unsuback.matched')
        else:
            # no acknowledgement: it may only have been failed by the loss of its connection
            if fired:
                s0, ok, v = fired[0]
                eng.check((not ok) and lost_step is not None and s0 >= lost_step, 'fired-without-ack', '%s Deferred fired in step %d (%s) without its acknowledgement' % (
                    r.kind, s0, w.steps[s0][0]))
                if not ok:
                    eng.count('failed-by-loss')
    # acknowledgements bearing other identifiers have no effect
    for (st, c, f) in flow.rx_log:
        if f['kind'] in ('SUBACK', 'UNSUBACK') and st not in acked_steps:
            evs = [e for e in w.events if e.step == st]
            eng.check(not evs, 'stray-ack-effect', '%s with a foreign identifier caused %s' % (f['kind'], [e.kind for e in evs]))
            eng.count('stray-ack')


def answer_everything(flow):
    """the broker acknowledges every SUBSCRIBE / UNSUBSCRIBE it has been sent on the current connection"""
    eng = flow.eng
    c = flow.c
    if not flow.up(c):
        return
    seen = []
    for (st, cc, p) in flow.all_packets([c]):
        if p['type'] in ('SUBSCRIBE', 'UNSUBSCRIBE'):
            if any(t == p['type'] and eng.valid(i == p['msgId']) for (t, i, s0) in seen):
                continue
            seen.append((p['type'], p['msgId'], st))
    for (t, i, s0) in seen:
        # an acknowledgement delivered after the packet was first written answers it
        already = any(cc is c and st > s0 and f['kind'] == ('SUBACK' if t == 'SUBSCRIBE' else 'UNSUBACK') and eng.valid(f['msgId'] == i)
                      for (st, cc, f) in flow.rx_log)
        if already:
            continue
        if t == 'SUBSCRIBE':
            flow.rx('SUBACK', msgId=i)
        else:
            flow.rx('UNSUBACK', msgId=i)


def h_subs(eng, params):
    import mqtt.error as merr
    flow = Flow(eng, params['profile'], clean=not params.get('persistent', False), ver=params.get('ver', 311))
    flow.open()
    flow.set_window()
    nreq = 0
    for i in range(params['k']):
        kinds = [k for k in KINDS if not (k in ('subscribe', 'unsubscribe') and nreq >= params.get('maxreq', 3))]
        forced = params.get('first') if i == 0 else params.get('second') if i == 1 else None
        if forced is not None and forced not in kinds:
            return None
        kind = forced if forced is not None else eng.choose(kinds, 'step')
        eng.note('free step %d: %s' % (i, kind))
        if kind == 'subscribe':
            flow.subscribe(eng.choose(SHAPES_S, 'shape') if (params.get('shapes', 'all') == 'all' or nreq == 0) else 'str')
            nreq += 1
        elif kind == 'unsubscribe':
            flow.unsubscribe(eng.choose(SHAPES_U, 'shape') if (params.get('shapes', 'all') == 'all' or nreq == 0) else 'str')
            nreq += 1
        elif kind == 'SUBACK':
            ng = eng.choose(3, 'ngranted')
            flow.rx('SUBACK', ngranted=ng)
        elif kind == 'UNSUBACK':
            flow.rx('UNSUBACK')
        elif kind == 'advance':
            flow.advance(hi=100)
        elif kind == 'setWindowSize':
            before = flow.c.window
            flow.set_window()
            for kk in ('subscribe', 'unsubscribe'):
                if eng.feasible(flow.c.window < len(pending_of(flow, kk, len(flow.w.steps)))):
                    eng.count('window-shrunk-below-pending')
        else:
            flow.lose()
            clean = eng.bool('clean-reconnect')
            flow.open(clean=clean)
            eng.count('reconnect.clean' if eng.valid(as_int(clean) == 1) else 'reconnect.persistent')
    # ---- closing phase
    answer_everything(flow)
    flow.advance(1000)
    monitor(flow)
    for r in flow.reqs:
        if r.kind in ('subscribe', 'unsubscribe') and r.tr is not None:
            eng.check(len(r.tr.fired) == 1, 'pending-forever', '%s Deferred issued in step %d is still pending after the broker answered everything on the current connection' % (
                r.kind, r.step), sig='pending-forever:' + r.kind)
    eng.count('settled-at-end')
    if flow.up():
        for kind in ('subscribe', 'unsubscribe'):
            r = flow.subscribe('str', qos=1) if kind == 'subscribe' else flow.unsubscribe('str')
            eng.check(r.tr is not None and not (r.failed_at_once() and isinstance(r.tr.fired[0][2].value, merr.MQTTWindowError)), 'kept-out-of-window',
                      'a fresh %s() is refused for window reasons although nothing is pending' % kind, sig='kept-out-of-window:' + kind)
    return flow.finish()


HARNESSES = {'subs': h_subs}


def shards(tier):
    T = tier == 'thorough'
    out = []
    for profile in ('subscriber', 'pubsubs'):
        for persistent in (False, True):
            for first in KINDS:
                for second in KINDS:
                    out.append(('subs', {'profile': profile, 'persistent': persistent, 'k': 5 if T else 4, 'first': first, 'second': second,
                                         'maxreq': 3, 'ver': 311, 'shapes': 'first'}))
                    if T and profile == 'pubsubs':
                        out.append(('subs', {'profile': profile, 'persistent': persistent, 'k': 4, 'first': first, 'second': second,
                                             'maxreq': 4, 'ver': 311, 'shapes': 'all'}))
    for first in ('subscribe', 'unsubscribe'):
        out.append(('subs', {'profile': 'pubsubs', 'persistent': False, 'k': 3, 'first': first, 'second': 'advance', 'ver': 31}))
    return out


META = {
    'rule': 'connected subscribing client, setWindowSize(w symbolic), k free steps from {subscribe (3 shapes, QoS symbolic), unsubscribe (2 shapes), SUBACK '
            '(identifier symbolic, 0..2 granted bytes symbolic), UNSUBACK (identifier symbolic), advance(dt symbolic), setWindowSize(w symbolic), loss + rebuilt '
            'protocol + connect(clean symbolic) + CONNACK}; then the broker answers everything sent on the current connection and 1000 s pass',
    'bounds': {'quick': 'k=4 with at most 3 requests (every argument shape for the first request of a history, the plain shape afterwards); subscriber and pubsubs; first session clean or persistent', 'thorough': 'k=5 with at most 3 requests; k=4 with at most 4 requests and every argument shape throughout (pubsubs)'},
    'stubs': ['fake transport', 'twisted task.Clock', 'jitter: fixed sequence'],
    'outside': ['histories longer than k steps', 'QoS outside 0..2 and wrong argument types (C20)'],
    'assumptions': ['the closing broker acknowledges exactly the SUBSCRIBE/UNSUBSCRIBE packets written on the current connection'],
}

MANIFEST = {
    'text': 'All histories of k free steps mixing subscribe/unsubscribe calls in every argument shape, SUBACK/UNSUBACK with symbolic identifiers and granted lists, time, window changes to symbolic sizes and clean/persistent reconnects are run on the real client; the monitor, written from the statement, decides acceptance against the number pending and the window in force, the packet written, the step and value of each Deferred, and that after a broker answering everything nothing stays pending.',
    'design_ref': '7 C07',
    'note': 'trusted: z3, engine, reference codec, Twisted.',
}
