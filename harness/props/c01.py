"""C01 - codec round trip: decode(encode(x)) == x"""
from .. import codec

PROPERTY = 'C01'
HARNESSES = codec.HARNESSES
BUDGET = {'quick': {'seconds': 600, 'xreplay_every': 25}, 'thorough': {'seconds': 3000, 'xreplay_every': 200}}
NONTRIVIAL = {'quick': ['u16', 'len.class1', 'len.class2', 'len.class3', 'len.class4', 'str.multibyte', 'str.filler',
                        'connect', 'connect.multibyte-password', 'publish.qos>0', 'ack', 'subscribe', 'unsubscribe',
                        'suback', 'connack', 'empty']}

LEN_BOUNDS = [0, 1, 127, 128, 16383, 16384, 65535]


def shards(tier):
    T = tier == 'thorough'
    out = [('prim16', {}), ('primlen', {})]
    for n in ((0, 1, 2, 3) if T else (0, 1, 2)):
        out.append(('primstr', {'ncp': n}))
    # byte-length classes: 2 symbolic code points around an ASCII filler (byte length >= filler+2)
    for L in LEN_BOUNDS:
        for k in ((0, 1, 2, 3) if T else (0, 2)):
            f = L - 2 - k
            if f >= 1:
                out.append(('primstr', {'ncp': 2, 'filler': f}))
    for cls in ('PUBACK', 'PUBREC', 'PUBREL', 'PUBCOMP', 'UNSUBACK'):
        out.append(('ack', {'cls': cls}))
    for cls in ('PINGREQ', 'PINGRES', 'DISCONNECT'):
        out.append(('empty', {'cls': cls}))
    out.append(('connack', {}))
    out.append(('suback', {'ngranted': 1}))
    out.append(('suback', {'ngranted': 3 if T else 2}))
    ncp = 3 if T else 2
    for version in (31, 311):
        for will in (0, 1):
            for user, pw in ((0, 0), (1, 0), (1, 1)):
                fields = ['clientId'] + (['willTopic', 'willMessage'] if will else []) + (['username'] if user else []) + (['password'] if pw else [])
                for rich in fields:
                    out.append(('connect', {'version': version, 'will': will, 'user': user, 'password': pw, 'rich': rich, 'ncp': ncp,
                                            'ncp_other': 0}))
    if T:
        # two fields with one symbolic code point each at a time
        for version in (31, 311):
            for rich in ('clientId', 'willTopic', 'username', 'password'):
                out.append(('connect', {'version': version, 'will': 1, 'user': 1, 'password': 1, 'rich': rich, 'ncp': 2, 'ncp_other': 0}))
    for version in (31, 311):
        for user in (0, 1):
            out.append(('connect', {'version': version, 'will': 0, 'user': user, 'password': 0, 'rich': 'clientId', 'ncp': 1, 'stray_will_args': True}))
    for payload in ('bytes', 'str'):
        for nt in ((0, 1, 2, 3) if T else (0, 1, 2)):
            for npl in ((0, 1, 2, 3) if T else (0, 2)):
                if nt + npl > (4 if T else 3) and payload == 'str':
                    continue
                out.append(('publish', {'payload': payload, 'ntopic': nt, 'npayload': npl}))
    # remaining-length classes through large bodies
    for rl in ((127, 128, 16383, 16384, 2097151, 2097152) if T else (127, 128, 16383, 16384)):
        # remaining length = 2 + topic(1) + 2 (id, qos>0) + payload
        big = rl > 100000
        out.append(('publish', {'payload': 'bytes', 'ntopic': 1 if not big else 0, 'npayload': 2, 'payload_filler': rl - 7}))
        out.append(('publish', {'payload': 'str', 'ntopic': 1 if not big else 0, 'npayload': 2 if not big else 1, 'payload_filler': rl - 7}))
        if big:
            continue
        # SUBSCRIBE: 2 (id) + [2+1+filler+1 bytes, qos] + [2+1 bytes, qos]; UNSUBSCRIBE without the qos bytes
        out.append(('subscribe', {'ntopics': 2, 'ncp': 1, 'topic_filler': rl - 10}))
        out.append(('unsubscribe', {'ntopics': 2, 'ncp': 1, 'topic_filler': rl - 8}))
    for nt, ncp_t in (((1, 3), (2, 2), (3, 1)) if T else ((1, 2), (2, 1))):
        out.append(('subscribe', {'ntopics': nt, 'ncp': ncp_t}))
        out.append(('unsubscribe', {'ntopics': nt, 'ncp': ncp_t}))
    return out


META = {
    'rule': 'one symbolic path per feasible branch combination of encode()+decode() on symbolic field values; non-trivial = '
            'paths that encoded multi-byte UTF-8, QoS>0 PUBLISH, each remaining-length size class, each packet class (counters)',
    'bounds': {
        'quick': 'identifiers/keepalive/flags/QoS/return codes fully symbolic; strings: <=2 symbolic code points over 0..0x10FFFF, '
                 'plus 2 symbolic code points around ASCII fillers at byte lengths 0,1,127,128,16383,16384,65535; payloads <=2 symbolic '
                 'bytes/code points plus fillers putting the remaining length at 127/128/16383/16384; topic lists 1..2; SUBACK 1..2 codes; '
                 'CONNECT: one field with 2 symbolic code points at a time, the others one ASCII character',
        'thorough': 'as quick with <=3 symbolic code points, topic lists 1..3, PUBLISH remaining length also around 2097151/2097152',
    },
    'stubs': codec.STUBS,
    'outside': ['fully symbolic strings longer than 3 code points', 'packet-level remaining lengths above 2097152 (primitive covered to 268435455)',
                'topic lists longer than 3', 'surrogate code points (not encodable: not a valid assignment)'],
    'assumptions': ['valid assignment: QoS 0 PUBLISH has no identifier and DUP=0; will QoS/retain only with a will; strings are sequences of Unicode scalar values',
                    'decoder input is a bytearray (as sliced from the receive buffer)'],
}

MANIFEST = {
    'text': 'Every feasible path of encode()+decode() of each packet class and of the three primitive codecs is executed on symbolic field values (whole 16-bit, whole remaining-length and whole code-point ranges; string/payload/list sizes bounded) and the round-trip equalities are decided by z3 for all values of each path. Bounded model checking is the right level: the codec is loop-bounded integer/byte code whose interesting inputs (multi-byte UTF-8, length-class boundaries, flag combinations) are rare for tests but are path classes here.',
    'design_ref': '7 C01',
    'note': 'trusted: z3, the proxy-value engine (validated by concrete cross-replay of sampled paths and by replaying every counterexample on native types), the reference codec harness/refcodec.py, CPython. Bounds and what lies outside them are in the evidence file (coverage.bounds / outside_claim).',
}
