"""C08 - unacknowledged packets are resent on every timer expiry, DUP set, same content"""
from fractions import Fraction
from .. import refcodec as ref
from ..flow import Flow
from ..world import all_eq, as_int, lnot, blist, mkstr, mkbytearray

PROPERTY = 'C08'
BUDGET = {'quick': {'seconds': 1200, 'xreplay_every': 40}, 'thorough': {'seconds': 6000, 'xreplay_every': 400}}
NONTRIVIAL = {'quick': ['early-publish', 'buffer-reused', 'resumed', 'resumed-expiry', 'expiry', 'no-expiry', 'second-expiry', 'third-expiry', 'dup-on-repeat', 'v31-dup', 'spacing', 'monotone-gap', 'interleaved']}

REQS = ('pub1', 'pub2', 'pubrel', 'sub', 'unsub')
EPS = Fraction(1, 10 ** 6)      # slack for float rounding in concrete replays (time comparisons only)
TYPE = {'pub1': 'PUBLISH', 'pub2': 'PUBLISH', 'pubrel': 'PUBREL', 'sub': 'SUBSCRIBE', 'unsub': 'UNSUBSCRIBE'}


def transmissions(flow, c, ptype, mid):
    """[(step, time, packet, raw bytes)] of packets of `ptype` bearing identifier mid, in write order"""
    out = []
    for e in flow.w.events:
        if e.kind == 'write' and e.conn is c:
            try:
                pk = ref.parse_stream(blist(e.a), v31=(flow.ver == 31), direction=ref.CLIENT_TO_BROKER)
            except ref.Malformed as m:
                flow.eng.check(False, 'malformed-write', str(m))
                continue
            for p in pk:
                if p['type'] == ptype and p.get('msgId') is not None and p['msgId'] == mid:
                    out.append((e.step, e.time, p, blist(e.a)))
    return out


def h_retry(eng, params):
    kind = params['req']
    flow = Flow(eng, 'pubsubs', ver=params['ver'], jitter='symbolic')
    w = flow.w
    w.env.jitter_pool = []
    early = params.get('early') and kind in ('pub1', 'pub2')
    flow.open(connack=not early)
    c = flow.c
    T = eng.int('timeout', 1, 1024) if not early else eng.int('timeout', 1, 8)
    flow.set_timeout(T)
    B = eng.real('bandwith', Fraction(1, 1000), 10 ** 7)
    flow.set_bandwith(B, params['factor'])
    flow.set_window(4)
    # ---- the request under observation
    if kind in ('pub1', 'pub2', 'pubrel'):
        st = w.begin_step('publish')
        qos = 1 if kind == 'pub1' else 2
        n = params['size']
        payload = [eng.int('pl', 0, 255) for _ in range(min(n, 2))] + [0x55] * max(0, n - 2)
        buf = mkbytearray(eng, payload)
        tr = w.api(c, 'publish', 'req', mkstr(eng, [0x52]), buf, qos=qos)
        flow.meta[st] = {'kind': 'publish'}
        if n and params.get('reuse_buffer', True):
            # the application reuses its buffer for the next reading: what was published must not change
            buf[0] = eng.int('reused', 0, 255)
            eng.count('buffer-reused')
        if kind == 'pubrel':
            flow.rx('PUBREC', msgId=tr.msgId)
    elif kind == 'sub':
        shape = eng.choose(('str', 'list'), 'shape')
        r = flow.subscribe(shape, qos=eng.int('sqos', 1, 2) if shape == 'str' else 1)
        tr = r.tr
    else:
        r = flow.unsubscribe('list')
        tr = r.tr
    eng.check(tr is not None and not tr.fired, 'request-refused')
    if tr is None:
        return None
    ptype = TYPE[kind]
    if early:
        # the request was issued between connect() and CONNACK; the CONNACK is slow (the retry timer may expire first)
        flow.advance(hi=9)
        flow.connack(0)
        eng.count('early-publish')
    first_step = len(w.steps) - 1
    t_first = w.now()
    tx_base = len(transmissions(flow, c, ptype, tr.msgId))
    # ---- k advances, one unrelated event somewhere in between
    unrelated_at = eng.choose(params['k'] + 1, 'unrelated-at') if params.get('unrelated') else -1
    expiries = 0
    due_log = []      # (time of transmission, due time of the timer armed by it)

    def the_timer():
        ts = w.pending_timers()
        eng.check(len(ts) == 1, 'single-retry-timer', '%d timers pending for one unacknowledged %s' % (len(ts), ptype), sig='single-retry-timer:%d' % len(ts))
        return ts[0] if ts else None
    tm0 = the_timer()
    if tm0 is None:
        return None
    tx_now = transmissions(flow, c, ptype, tr.msgId)
    due_log.append((tx_now[-1][1] if tx_now else w.now(), tm0.getTime()))
    for i in range(params['k']):
        if i == unrelated_at:
            what = eng.choose(('publish0', 'stray-ack', 'window'), 'unrelated')
            eng.count('interleaved')
            before = len(transmissions(flow, c, ptype, tr.msgId))
            if what == 'publish0':
                flow.publish(qos=0)
            elif what == 'stray-ack':
                ack = {'pub1': 'PUBACK', 'pub2': 'PUBREC', 'pubrel': 'PUBCOMP', 'sub': 'SUBACK', 'unsub': 'UNSUBACK'}[kind]
                mid = eng.int('foreign', 0, 65535)
                eng.assume(mid != tr.msgId)
                flow.rx(ack, msgId=mid)
            else:
                flow.set_window()
            eng.check(len(transmissions(flow, c, ptype, tr.msgId)) == before, 'repeat-without-expiry', 'the packet was written again in step %s' % what)
        tmr = the_timer()
        if tmr is None:
            break
        due = tmr.getTime()
        n_before = len(transmissions(flow, c, ptype, tr.msgId))
        flow.advance(hi=params.get('dtmax', 5000))
        n_after = len(transmissions(flow, c, ptype, tr.msgId))
        if due <= w.now():
            expiries += 1
            eng.count('expiry')
            if expiries == 2:
                eng.count('second-expiry')
            if expiries == 3:
                eng.count('third-expiry')
            eng.check(n_after == n_before + 1, 'not-resent-on-expiry', 'retry timer of the %s expired (expiry #%d) and %d packets were written' % (
                ptype, expiries, n_after - n_before), sig='not-resent-on-expiry:%s:%d' % (kind, min(n_after - n_before, 2)))
            t2 = the_timer()
            if t2 is not None:
                due_log.append((w.now(), t2.getTime()))
        else:
            eng.count('no-expiry')
            eng.check(n_after == n_before, 'repeat-without-expiry', 'the %s was written again although its timer had not expired' % ptype,
                      sig='repeat-without-expiry:' + kind)
    # ---- content, DUP, spacing over all transmissions
    tx = transmissions(flow, c, ptype, tr.msgId)
    eng.check(len(tx) == tx_base + expiries, 'transmission-count')
    s0, t0, p0, raw0 = tx[0]
    eng.check(p0['dup'] == 0, 'first-transmission-dup')
    for i, (st, t, p, raw) in enumerate(tx[1:]):
        if ptype == 'PUBLISH':
            eng.check(p['dup'] == 1, 'dup-missing-on-repeat', 'repeated PUBLISH without DUP')
            eng.check(all_eq(p['topic'], p0['topic']) & all_eq(p['payload'], p0['payload']) if all_eq(p['topic'], p0['topic']) is not False
                      and all_eq(p['payload'], p0['payload']) is not False else False, 'content-changed', 'retransmission differs from the first transmission')
            eng.check((p['qos'] == p0['qos']) & (p['retain'] == p0['retain']), 'flags-changed')
            eng.count('dup-on-repeat')
        else:
            if flow.ver == 31:
                eng.check(p['dup'] == 1, 'v31-dup-missing', 'protocol 3.1: repeated %s must carry DUP' % ptype)
                eng.count('v31-dup')
            else:
                eng.check(p['dup'] == 0, 'v311-dup-set', 'protocol 3.1.1: %s must never carry DUP' % ptype)
            if ptype != 'PUBREL':
                eng.check(len(p['topics']) == len(p0['topics']) and all(
                    (all_eq(a[0], b[0]) is True and a[1] == b[1]) if ptype == 'SUBSCRIBE' else all_eq(a, b) is True
                    for a, b in zip(p['topics'], p0['topics'])), 'content-changed')
        # body after the first byte is identical
        eng.check(all_eq(raw[1:], raw0[1:]), 'bytes-changed', 'retransmitted bytes differ beyond the first byte')
        tprev = tx[i][1]
        eng.check(t - tprev >= T - EPS, 'spacing-below-initial-timeout', 'two transmissions closer together than the configured initial timeout',
                  sig='spacing-below-initial-timeout:' + kind)
        eng.count('spacing')
    # ---- back-off: the scheduled delay minus its jitter does not shrink (PUBLISH)
    pool = w.env.jitter_pool
    if ptype == 'PUBLISH':
        # jitter values are drawn once per transmission of this single request (the QoS 2 PUBLISH of the pubrel case draws one before)
        offs = tx_base - 1      # jitter values already drawn by transmissions before the observed stretch
        delays = [(d - t) for (t, d) in due_log]
        for i in range(1, len(delays)):
            if i + offs < len(pool) and i - 1 + offs < len(pool):
                eng.check(delays[i] - pool[i + offs] >= delays[i - 1] - pool[i - 1 + offs] - EPS, 'backoff-shrinks',
                          'retry delay (without its random jitter) shrank from one retry to the next', sig='backoff-shrinks')
                eng.count('monotone-gap')
    for (t, d) in due_log:
        eng.check(d - t >= T - EPS, 'delay-below-initial-timeout', 'a retry timer was armed with less than the initial timeout', sig='delay-below-initial-timeout:' + kind)
    return flow.finish()


def h_resume(eng, params):
    """a packet first sent on an earlier connection keeps the spacing configured when it was first sent"""
    kind = params['req']
    flow = Flow(eng, 'pubsubs', ver=params['ver'], clean=False, jitter='symbolic')
    w = flow.w
    w.env.jitter_pool = []
    flow.open()
    c1 = flow.c
    T = eng.int('timeout', 1, 1024)
    flow.set_timeout(T)
    flow.set_window(4)
    st = w.begin_step('publish')
    qos = 1 if kind == 'pub1' else 2
    buf = mkbytearray(eng, [eng.int('pl', 0, 255), 7])
    tr = w.api(c1, 'publish', 'req', mkstr(eng, [0x52]), buf, qos=qos)
    flow.meta[st] = {'kind': 'publish'}
    buf[0] = eng.int('reused', 0, 255)
    eng.check(tr is not None and not tr.fired, 'request-refused')
    if tr is None:
        return None
    if kind == 'pubrel':
        flow.rx('PUBREC', msgId=tr.msgId)
    ptype = TYPE[kind]
    if eng.choose(2, 'expiry-before-loss'):
        flow.advance(hi=3000)
    flow.lose()
    # the rebuilt protocol starts with the library defaults (or whatever the application sets for NEW requests)
    flow.open(connack=False, clean=False)
    c2 = flow.c
    if eng.choose(2, 'settimeout-on-new-protocol'):
        flow.set_timeout(eng.int('timeout2', 1, 1024))
    flow.connack(1)
    eng.count('resumed')
    tx2 = transmissions(flow, c2, ptype, tr.msgId)
    eng.check(len(tx2) == 1, 'not-resumed', '%d %s packets after the persistent CONNACK' % (len(tx2), ptype))
    for i in range(params['k']):
        n0 = len(transmissions(flow, c2, ptype, tr.msgId))
        flow.advance(hi=3000)
        if len(transmissions(flow, c2, ptype, tr.msgId)) > n0:
            eng.count('resumed-expiry')
    tx1 = transmissions(flow, c1, ptype, tr.msgId)
    tx2 = transmissions(flow, c2, ptype, tr.msgId)
    first = tx1[0]
    for i, (st, t, p, raw) in enumerate(tx2):
        if ptype == 'PUBLISH':
            eng.check(p['dup'] == 1, 'dup-missing-on-repeat')
            eng.check(all_eq(p['payload'], first[2]['payload']), 'content-changed', 'a resumed PUBLISH carries a different payload than its first transmission')
            eng.check(all_eq(p['topic'], first[2]['topic']), 'content-changed')
        if i > 0:
            eng.check(t - tx2[i - 1][1] >= T - EPS, 'spacing-below-initial-timeout',
                      'after a resume, two transmissions on one connection are closer together than the initial timeout configured when the packet was first sent',
                      sig='spacing-below-initial-timeout:resumed:' + kind)
    from .c13 import is_notification
    ts = [t for t in w.pending_timers() if not is_notification(w, t)]
    eng.check(len(ts) == 1, 'single-retry-timer', '%d timers pending' % len(ts), sig='single-retry-timer:resumed:%d' % len(ts))
    return flow.finish()


HARNESSES = {'retry': h_retry, 'resume': h_resume}


def shards(tier):
    T = tier == 'thorough'
    out = []
    for ver in (31, 311):
        for req in REQS:
            sizes = (0, 2, 200) if req in ('pub1', 'pub2') else (2,)
            for size in sizes:
                for factor in ((2, 1, 3) if req in ('pub1', 'pub2') else (2,)):
                    for unrelated in (False, True):
                        if unrelated and (size != 2 or factor != 2):
                            continue
                        out.append(('retry', {'ver': ver, 'req': req, 'size': size, 'factor': factor, 'k': 6 if T else 4, 'unrelated': unrelated}))
        for req in ('pub1', 'pub2', 'pubrel'):
            out.append(('resume', {'ver': ver, 'req': req, 'k': 3 if T else 2}))
        for req in ('pub1', 'pub2'):
            out.append(('retry', {'ver': ver, 'req': req, 'size': 2, 'factor': 2, 'k': 4 if T else 3, 'unrelated': False, 'early': True}))
    return out


META = {
    'rule': 'one retransmittable request of each kind, setTimeout(T symbolic 1..1024), setBandwith(B symbolic real, factor), k advances by symbolic amounts '
            'with fresh symbolic jitter in [0,1) per retry and optionally one unrelated event; every comparison between time stamps, due times, T, B and jitter is '
            'a validity query; non-trivial = expiries (first, second, third), non-expiries, DUP, spacing and back-off obligations',
    'bounds': {'quick': '(resume) PUBLISH QoS1/QoS2/PUBREL first sent with setTimeout(T symbolic), optional expiry, persistent loss, rebuilt protocol with optional setTimeout(T2 symbolic), CONNACK, k=2 advances of 0..3000 s; the application overwrites its payload buffer after publish(); (retry) both protocol versions x {PUBLISH QoS1, PUBLISH QoS2, PUBREL, SUBSCRIBE, UNSUBSCRIBE}; payload 0, 2, 200 bytes; factor 2, 1, 3; k=4 advances of '
                        '0..5000 s; B in [0.001, 1e7]', 'thorough': 'k=6'},
    'stubs': ['fake transport', 'twisted task.Clock with exact real arithmetic', 'random.random() -> fresh symbolic real in [0,1)'],
    'outside': ['back-off factor < 1', 'float rounding', 'more than one retransmittable request at a time (C13 covers timer ownership with several)',
                'monotonicity of the jittered gaps themselves (jitter in [0,1) is by design; the jitter-free component is checked)'],
    'assumptions': ['the retry timer of the single outstanding request is the only pending reactor timer (keepalive 0)'],
}

MANIFEST = {
    'text': 'For each retransmittable packet kind and protocol version the real retry machinery runs under the real Twisted Clock with the initial timeout, bandwidth, jitter and elapsed times all symbolic: z3 decides for all values whether each advance passes the due time, and then proves that exactly one byte-identical repeat with the right DUP bit is written on each expiry and none otherwise, that transmissions are at least the initial timeout apart and that the PUBLISH back-off without jitter never shrinks (non-linear size/bandwidth term included).',
    'design_ref': '7 C08',
    'note': 'trusted: z3 (QF_NRA fragment for k*size/B), engine, reference codec, Twisted Clock.',
}
