"""C05 - publish() Deferred fires exactly once, only on the ack its QoS level requires"""
from .. import refcodec as ref
from ..flow import Flow, sent_before
from ..world import all_eq, as_int, lnot

PROPERTY = 'C05'
BUDGET = {'quick': {'seconds': 1200, 'xreplay_every': 100}, 'thorough': {'seconds': 6000, 'xreplay_every': 2000}}
NONTRIVIAL = {'quick': ['qos0', 'qos1.acked', 'qos2.completed', 'qos2.half', 'stray-ack', 'duplicate-ack', 'retransmitted', 'held-back']}

KINDS = ('publish', 'PUBACK', 'PUBREC', 'PUBCOMP', 'advance')


def outstanding(flow):
    return [r for r in flow.reqs if r.kind == 'publish' and r.accepted() and not r.tr.fired]


def deliver_ack(flow, kind):
    """ack with a symbolic identifier, of a type fitting the exchange it may address"""
    eng = flow.eng
    mid = eng.int('ackid', 0, 65535)
    for r in outstanding(flow):
        if kind == 'PUBACK':
            eng.assume((mid != r.msgId) | (r.qos == 1))
        else:
            eng.assume((mid != r.msgId) | (r.qos == 2))
    return flow.rx(kind, msgId=mid)


def monitor(flow):
    eng, w = flow.eng, flow.w
    c = flow.c
    handled_steps = {}
    for r in flow.reqs:
        if r.kind != 'publish':
            continue
        eng.check(r.tr is not None, 'publish-raised')
        if r.tr is None:
            continue
        eng.check(not r.failed_at_once(), 'publish-rejected', 'publish() with valid arguments was refused')
        if r.failed_at_once():
            continue
        fired = r.tr.fired
        eng.check(len(fired) <= 1, 'fired-twice', 'publish Deferred fired %d times' % len(fired))
        # --- identifier on the wire == identifier on the Deferred
        firsts = []
        for (st, cc, p) in flow.all_packets([c]):
            if p['type'] == 'PUBLISH' and all_eq(p['topic'], r.topic) is True:
                firsts.append((st, p))
        if r.qos == 0:
            eng.count('qos0')
            eng.check(len(fired) == 1 and fired[0][0] == r.step and fired[0][1] and fired[0][2] is None, 'qos0-outcome',
                      'QoS 0 publish must have succeeded with None on return')
            eng.check(r.tr.msgId is None, 'qos0-has-id')
            continue
        for (st, p) in firsts:
            eng.check(p['msgId'] == r.tr.msgId, 'wire-id-vs-deferred-id', 'identifier on the wire differs from Deferred.msgId')
            eng.check(p['qos'] == r.qos, 'wire-qos')
        if not firsts:
            eng.count('held-back')
        if len(firsts) > 1:
            eng.count('retransmitted')
        # --- when must it fire?
        expect = None
        rec_seen = None
        for (st, cc, f) in flow.rx_log:
            if f.get('msgId') is None or st <= r.step:
                continue
            if not any(s < st for (s, p) in firsts):
                continue            # not transmitted yet: the acknowledgement cannot be for it
            if f['kind'] == 'PUBACK':
                if expect is None and rec_seen is None and f['msgId'] == r.msgId:
                    expect = st
                    handled_steps[st] = True
            elif f['kind'] == 'PUBREC':
                if expect is None and rec_seen is None and f['msgId'] == r.msgId:
                    rec_seen = st
                    handled_steps[st] = True
            elif f['kind'] == 'PUBCOMP':
                if expect is None and rec_seen is not None and f['msgId'] == r.msgId:
                    expect = st
                    handled_steps[st] = True
        if expect is None:
            eng.check(not fired, 'fired-without-ack', 'QoS>0 publish Deferred fired (step %s) without the acknowledgement its QoS requires' % (
                fired[0][0] if fired else '-'))
            if rec_seen is not None:
                eng.count('qos2.half')
        else:
            eng.check(len(fired) == 1 and fired[0][0] == expect, 'fired-on-the-ack', 'expected the Deferred to fire in step %d, fired in %s' % (
                expect, [s for (s, ok, v) in fired]), sig='fired-on-the-ack:%s' % ('never' if not fired else 'other-step'))
            if len(fired) == 1:
                eng.check(fired[0][1], 'acked-but-failed')
                if fired[0][1]:
                    eng.check(fired[0][2] == r.tr.msgId, 'callback-value-vs-id', 'callback value differs from Deferred.msgId')
            eng.count('qos1.acked' if rec_seen is None else 'qos2.completed')
    # --- acknowledgements that address nothing change nothing
    for (st, cc, f) in flow.rx_log:
        if f['kind'] in ('PUBACK', 'PUBREC', 'PUBCOMP') and st not in handled_steps:
            evs = [e for e in w.events if e.step == st]
            eng.check(not evs, 'stray-ack-effect', '%s with an identifier that is not outstanding caused %s' % (f['kind'], [e.kind for e in evs]),
                      sig='stray-ack-effect:' + f['kind'])
            seen_before = any(s2 < st and f2['kind'] == f['kind'] and eng.feasible(f2.get('msgId') == f['msgId']) for (s2, c2, f2) in flow.rx_log
                              if f2.get('msgId') is not None)
            eng.count('duplicate-ack' if seen_before else 'stray-ack')


def h_publish(eng, params):
    flow = Flow(eng, params['profile'])
    flow.open()
    flow.set_window()
    for i in range(params['n']):
        flow.publish()
    for i in range(params['k']):
        kind = params['first'] if (i == 0 and params.get('first')) else eng.choose(KINDS, 'step')
        eng.note('free step %d: %s' % (i, kind))
        if kind == 'publish':
            flow.publish()
        elif kind == 'advance':
            flow.advance(hi=100)
        else:
            deliver_ack(flow, kind)
    monitor(flow)
    return flow.finish()


HARNESSES = {'publish': h_publish}


def shards(tier):
    T = tier == 'thorough'
    out = []
    for profile in ('publisher', 'pubsubs'):
        for n in ((1, 2, 3, 4) if T else (1, 2, 3)):
            for first in KINDS:
                out.append(('publish', {'profile': profile, 'n': n, 'k': (4 if n < 3 else 3) if T else 3, 'first': first}))
    return out


META = {
    'rule': 'connected client, setWindowSize(w symbolic 1..16), n publishes with symbolic QoS, then k free steps from {publish(QoS symbolic), PUBACK, PUBREC, '
            'PUBCOMP (identifier symbolic 0..65535), advance(dt symbolic)}; one path per feasible combination of step kinds, window class, QoS class, '
            'identifier aliasing and timer expiry; non-trivial = counters (acked, completed, half-done QoS 2, stray and duplicate acks, retransmissions, held back)',
    'bounds': {'quick': 'profiles publisher/pubsubs; n<=3 initial publishes, k=3 free steps; payload 2 bytes (one symbolic); advance 0..100 s; fixed jitter sequence',
               'thorough': 'n<=2 with k=4, n<=4 with k=3'},
    'stubs': ['fake transport', 'twisted task.Clock', 'jitter: fixed sequence k/16'],
    'outside': ['histories longer than n+k steps', 'acknowledgement types not fitting the exchange (PUBACK for a QoS 2 identifier, PUBREC/PUBCOMP for a QoS 1 identifier): excluded by the property', 'identifier wrap-around (C17)'],
    'assumptions': ['acknowledgement types fit the exchange they may address (taken from the quantifier)'],
}

MANIFEST = {
    'text': 'All histories of n initial publishes plus k free steps (publish, PUBACK/PUBREC/PUBCOMP with a fully symbolic identifier, symbolic time advance) are run on the real client with a symbolic window size and symbolic QoS; a monitor written from the statement computes from the delivered packets alone in which step each Deferred must fire, with which value, and that stray or duplicate acknowledgements leave an empty log; z3 decides the identifier comparisons for all 65536 values.',
    'design_ref': '7 C05',
    'note': 'trusted: z3, engine, reference codec, Twisted Clock/Deferred.',
}
