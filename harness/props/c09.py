"""C09 - QoS 2 sender order: PUBREL only after PUBREC, no PUBLISH again after PUBREL"""
from .. import refcodec as ref
from ..flow import Flow
from ..world import all_eq, as_int, lnot
from . import c05

PROPERTY = 'C09'
BUDGET = {'quick': {'seconds': 1200, 'xreplay_every': 100}, 'thorough': {'seconds': 6000, 'xreplay_every': 2000}}
NONTRIVIAL = {'quick': ['pubrel-written', 'pubrel-retransmitted', 'publish-retransmitted', 'exchange-completed', 'reconnect-in-publish-stage',
                        'reconnect-in-pubrel-stage', 'pubrel-resumed', 'stray-pubrec', 'duplicate-pubrec', 'early-publish', 'session-discarded', 'reconnect-lost-before-connack']}

KINDS = ('PUBREC', 'PUBCOMP', 'advance', 'publish2', 'publish1', 'reconnect', 'reconnect-clean', 'reconnect-lost')


def monitor(flow):
    eng, w = flow.eng, flow.w
    pk = flow.all_packets()
    # delivered acknowledgements and session resets, in step order
    for (st, c, p) in pk:
        if p['type'] == 'PUBREL':
            x = p['msgId']
            # a PUBREC bearing x was delivered in this step or earlier, after a PUBLISH bearing x was written
            ok = False
            discard = max([s3 for s3 in range(st + 1) if flow.meta.get(s3, {}).get('kind') == 'connect' and as_int(flow.meta[s3].get('clean')) == 1] or [-1])
            for (s2, c2, f) in flow.rx_log:
                if f['kind'] == 'PUBREC' and discard < s2 <= st:
                    if any(p3['type'] == 'PUBLISH' and s3 < s2 and p3.get('msgId') is not None and eng.valid(p3['msgId'] == x) for (s3, c3, p3) in pk):
                        if f['msgId'] == x:
                            ok = True
                            break
            eng.check(ok, 'pubrel-without-pubrec', 'PUBREL written in step %d (%s) for an identifier whose PUBREC was never received in the current session' % (st, w.steps[st][0]))
            eng.count('pubrel-written')
    seen_rel = []       # (identifier, index in pk) of first PUBREL per open exchange
    ended = []
    for idx, (st, c, p) in enumerate(pk):
        if p['type'] == 'PUBREL':
            if not any(eng.valid(x == p['msgId']) for (x, i0, s0) in seen_rel):
                seen_rel.append((p['msgId'], idx, st))
            else:
                eng.count('pubrel-retransmitted')
                if any(c is not pk[i0][1] for (x, i0, s0) in seen_rel if eng.valid(x == p['msgId'])):
                    eng.count('pubrel-resumed')
        elif p['type'] == 'PUBLISH' and p.get('msgId') is not None:
            if p['dup'] != 0:
                eng.count('publish-retransmitted')
            for (x, i0, s0) in seen_rel:
                if p['msgId'] == x:
                    # allowed only if the exchange ended in between
                    over = False
                    for (s2, c2, f) in flow.rx_log:
                        if f['kind'] == 'PUBCOMP' and s0 <= s2 <= st and f['msgId'] == x:
                            over = True
                    for s2 in range(s0, st + 1):
                        m = flow.meta.get(s2, {})
                        if m.get('kind') == 'connect' and as_int(m.get('clean')) == 1:
                            over = True
                    eng.check(over, 'publish-after-pubrel', 'PUBLISH with the identifier written again in step %d (%s) after its PUBREL (step %d)' % (
                        st, w.steps[st][0], s0))
    for r in flow.reqs:
        if r.kind == 'publish' and r.tr is not None and r.tr.fired and r.accepted() and eng.valid(r.qos == 2):
            s0, ok0, v0 = r.tr.fired[0]
            m0 = flow.meta.get(s0, {})
            by_pubcomp = m0.get('kind') == 'rx' and m0.get('pkt') == 'PUBCOMP'
            by_discard = (m0.get('kind') == 'connect' and as_int(m0.get('clean')) == 1) or (m0.get('kind') == 'lose' and as_int(m0['conn'].clean) == 1)
            eng.check(by_pubcomp or by_discard, 'exchange-ended-early', 'a QoS 2 exchange ended in step %d (%s): neither its PUBCOMP nor a session discard' % (
                s0, w.steps[s0][0]), sig='exchange-ended-early:' + str(m0.get('kind')))
    for (s2, c2, f) in flow.rx_log:
        if f['kind'] == 'PUBCOMP' and any(s0 <= s2 and eng.valid(f['msgId'] == x) for (x, i0, s0) in seen_rel):
            eng.count('exchange-completed')
        if f['kind'] == 'PUBREC':
            if not any(eng.feasible(f['msgId'] == r.msgId) for r in flow.reqs if r.msgId is not None):
                eng.count('stray-pubrec')
            elif any(s3 < s2 and f3['kind'] == 'PUBREC' and eng.feasible(f3['msgId'] == f['msgId']) for (s3, c3, f3) in flow.rx_log):
                eng.count('duplicate-pubrec')


def h_qos2(eng, params):
    flow = Flow(eng, params['profile'], clean=not params['persistent'], ver=params.get('ver', 311))
    if params.get('early'):
        # the first QoS 2 publish is issued between connect() and CONNACK
        flow.open(connack=False)
        flow.publish(qos=2)
        flow.connack(0)
        flow.set_window()
        eng.count('early-publish')
        for i in range(params['n'] - 1):
            flow.publish(qos=2)
    else:
        flow.open()
        flow.set_window()
        for i in range(params['n']):
            flow.publish(qos=2)
    if params.get('with_qos1'):
        flow.publish(qos=1)
    npub = 0
    for i in range(params['k']):
        kinds = [k for k in KINDS if not (k.startswith('publish') and npub >= 2) and not (k.startswith('reconnect') and not params['persistent'])]
        forced = params.get('first') if i == 0 else params.get('second') if i == 1 else None
        if forced is not None and forced not in kinds:
            return None
        kind = forced if forced is not None else eng.choose(kinds, 'step')
        eng.note('free step %d: %s' % (i, kind))
        if kind.startswith('publish'):
            flow.publish(qos=int(kind[-1]))
            npub += 1
        elif kind == 'advance':
            flow.advance(hi=100)
        elif kind == 'reconnect-clean':
            # the session is discarded by a clean connection, then a persistent one follows
            flow.lose()
            flow.open(clean=True, sp=0)
            flow.lose()
            flow.open(clean=False, sp=0)
            eng.count('session-discarded')
        elif kind == 'reconnect-lost':
            # the persistent reconnection attempt dies before its CONNACK; the next one succeeds
            flow.lose()
            flow.open(clean=False, connack=False)
            flow.lose(clean_close=False)
            flow.open(clean=False, sp=1)
            eng.count('reconnect-lost-before-connack')
        elif kind == 'reconnect':
            stage_rel = any(p['type'] == 'PUBREL' for (st, c, p) in flow.all_packets())
            flow.lose()
            if npub < 2 and eng.choose(2, 'publish-before-connack'):
                flow.open(clean=False, connack=False)
                flow.publish(qos=2)
                npub += 1
                flow.connack(1)
                eng.count('early-publish')
            else:
                flow.open(clean=False, sp=1)
            eng.count('reconnect-in-pubrel-stage' if stage_rel else 'reconnect-in-publish-stage')
        else:
            c05.deliver_ack(flow, kind)
    flow.advance(200)
    monitor(flow)
    return flow.finish()


HARNESSES = {'qos2': h_qos2}


def shards(tier):
    T = tier == 'thorough'
    out = []
    for profile in ('publisher', 'pubsubs'):
        for persistent in (False, True):
            for n in (1, 2):
                for first in KINDS:
                    for second in KINDS:
                        if (first.startswith('reconnect') or second.startswith('reconnect')) and not persistent:
                            continue
                        out.append(('qos2', {'profile': profile, 'persistent': persistent, 'n': n, 'k': (5 if n == 1 else 4) if T else (4 if n == 1 else 3), 'first': first, 'second': second,
                                             'with_qos1': n == 2}))
                        if n == 1 and persistent and (T or first in ('PUBREC', 'advance')):
                            out.append(('qos2', {'profile': profile, 'persistent': persistent, 'n': n, 'k': 5 if T else 4, 'first': first, 'second': second,
                                                 'with_qos1': False, 'early': True}))
    out.append(('qos2', {'profile': 'pubsubs', 'persistent': True, 'n': 1, 'k': 3, 'first': 'PUBREC', 'second': 'advance', 'ver': 31, 'with_qos1': False}))
    return out


META = {
    'rule': 'connected publishing client (clean or persistent), window symbolic, 1..2 QoS 2 publishes (+ one QoS 1), k free steps from {PUBREC, PUBCOMP (identifier '
            'symbolic), advance(dt symbolic), publish QoS 2, publish QoS 1, loss + rebuilt protocol + persistent connect + CONNACK, the same through an intermediate clean session, the same with a first attempt lost before CONNACK}, then 200 s; the order of '
            'PUBLISH/PUBREL per identifier is read from the reference-parsed wire log of all connections',
    'bounds': {'quick': 'the first publish optionally issued before CONNACK (persistent session), also on reconnect; k=4 around one QoS 2 exchange, k=3 around two QoS 2 and one QoS 1 exchange; at most 2 further publishes', 'thorough': 'k=5 around one exchange, k=4 around two'},
    'stubs': ['fake transport', 'twisted task.Clock', 'jitter: fixed sequence'],
    'outside': ['histories longer than k steps', 'identifier wrap-around (C17)'],
    'assumptions': ['acknowledgement types fit the exchange they may address'],
}

MANIFEST = {
    'text': 'All histories of k free steps around one or two QoS 2 exchanges (acknowledgements with symbolic identifiers in any order and multiplicity, timer expiries through symbolic time, further publishes, persistent-session reconnect at every stage) are run on the real client; for every identifier the wire log of all connections is checked for PUBREL-only-after-PUBREC and no-PUBLISH-after-PUBREL, identifier equalities decided by z3.',
    'design_ref': '7 C09',
    'note': 'trusted: z3, engine, reference codec, Twisted.',
}
