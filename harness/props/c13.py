"""C13 - settled requests and lost connections stay silent: no stray timers or writes"""
from .. import refcodec as ref
from ..flow import Flow
from ..world import all_eq, as_int, lnot, blist
from . import c05

PROPERTY = 'C13'
BUDGET = {'quick': {'seconds': 1500, 'xreplay_every': 100}, 'thorough': {'seconds': 6000, 'xreplay_every': 2000}}
NONTRIVIAL = {'quick': ['timer-census', 'in-flight-timer', 'idle-no-timer', 'settled-silent', 'after-loss-silent', 'resumed', 'early-publish',
                        'clean-reconnect', 'notification-pending', 'retry-fired', 'disconnect', 'lost-before-connack', 'near-wrap']}

KINDS = ('publish', 'subscribe', 'unsubscribe', 'PUBACK', 'PUBREC', 'PUBCOMP', 'SUBACK', 'UNSUBACK', 'advance', 'reconnect', 'disconnect')


def is_notification(world, dc):
    """a not yet delivered onDisconnection notification (the handler the harness installed)"""
    tgt = getattr(dc.func, 'target', None)
    return tgt is not None and getattr(tgt[0], '__name__', '') == '<lambda>' and getattr(tgt[0], '__module__', '').endswith('world')


def census(flow, label):
    """after a step: the reactor holds exactly one live timer per packet awaiting acknowledgement on a live
    connection, one per pending CONNACK, one per undelivered loss notification - and nothing else"""
    eng, w = flow.eng, flow.w
    st = len(w.steps) - 1
    timers = w.pending_timers()
    notif = [t for t in timers if is_notification(w, t)]
    others = [t for t in timers if t not in notif]
    expected = 0
    why = []
    allp = flow.all_packets()
    for c in w.conns:
        if c.lost:
            # a CONNACK time-out may still be running after the loss of a connection that never got its CONNACK
            if c.connack_step is None and not c.connect_tr.fired:
                expected += 1
                why.append('connack-timeout(lost conn %d)' % c.idx)
            continue
        if getattr(c, 'disconnected', False):
            continue
        if c.connack_step is None and c.connect_tr is not None and not c.connect_tr.fired:
            expected += 1
            why.append('connack-timeout')
        for r in flow.reqs:
            if r.tr is None or not r.accepted() or r.tr.fired:
                continue
            if r.kind == 'publish':
                if r.qos == 0:
                    continue
                mine = [(s, cc, p) for (s, cc, p) in allp if p['type'] == 'PUBLISH' and all_eq(p['topic'], r.topic) is True]
                rel = [(s, cc, p) for (s, cc, p) in allp if p['type'] == 'PUBREL' and eng.valid(p['msgId'] == r.msgId)]
                last = (rel or mine)
                if last and last[-1][1] is c:
                    expected += 1
                    why.append('%s#%d' % ('pubrel' if rel else 'publish', r.order))
            else:
                if r.conn is c:
                    expected += 1
                    why.append('%s#%d' % (r.kind, r.order))
    # more timers than packets awaiting acknowledgement is the violation (a stale or second timer); fewer would be
    # a retransmission problem (C08) or simply a different timer design, and is not demanded here
    eng.check(len(others) <= expected, 'timer-census', 'after step %d (%s) %s: %d retry/handshake timers pending, at most %d expected (%s)' % (
        st, w.steps[st][0], label, len(others), expected, why), sig='timer-census:more')
    eng.count('timer-census')
    if expected:
        eng.count('in-flight-timer')
    elif not notif and flow.up():
        eng.count('idle-no-timer')
    if notif:
        eng.count('notification-pending')


def settled_silence(flow):
    """once a request is acknowledged, failed or purged nothing is written for it; nothing reaches a lost transport"""
    eng, w = flow.eng, flow.w
    allp = flow.all_packets()
    for r in flow.reqs:
        if r.tr is None or not r.tr.fired or r.msgId is None:
            continue
        s0 = r.tr.fired[0][0]
        T = {'publish': ('PUBLISH', 'PUBREL'), 'subscribe': ('SUBSCRIBE',), 'unsubscribe': ('UNSUBSCRIBE',)}[r.kind]
        for (s, cc, p) in allp:
            if s > s0 and p['type'] in T and p.get('msgId') is not None and p['msgId'] == r.msgId:
                eng.check(False, 'write-for-settled-request', '%s written in step %d (%s) for a %s settled in step %d' % (
                    p['type'], s, w.steps[s][0], r.kind, s0), sig='write-for-settled-request:%s' % p['type'])
        eng.count('settled-silent')
    for c in w.conns:
        if c.lost:
            late = [e.step for e in w.events if e.kind == 'write' and e.conn is c and e.step > c.lose_step]
            eng.check(not late, 'write-after-loss', 'written to a transport after its loss was reported: steps %s' % late)
            eng.count('after-loss-silent')


def h_silence(eng, params):
    profile = params['profile']
    flow = Flow(eng, profile, clean=not params['persistent'])
    w = flow.w
    if params.get('near_wrap'):
        w.fac.id = eng.int('counter', 65533, 65535)
        eng.count('near-wrap')
    flow.open()
    flow.set_window()
    census(flow, 'start')
    nreq = 0
    for i in range(params['k']):
        kinds = [k for k in KINDS if not (profile == 'publisher' and k in ('subscribe', 'unsubscribe', 'SUBACK', 'UNSUBACK'))
                 and not (profile == 'subscriber' and k in ('publish', 'PUBACK', 'PUBREC', 'PUBCOMP'))
                 and not (k in ('publish', 'subscribe', 'unsubscribe') and nreq >= params['maxreq'])]
        forced = params.get('first') if i == 0 else params.get('second') if i == 1 else None
        if forced is not None and forced not in kinds:
            return None
        kind = forced if forced is not None else eng.choose(kinds, 'step')
        eng.note('free step %d: %s' % (i, kind))
        c = flow.c
        if getattr(c, 'disconnected', False) and kind not in ('reconnect', 'advance'):
            continue
        if kind == 'publish':
            flow.publish(qos=eng.int('qos', 0, 2) if params.get('qos0') else eng.int('qos', 1, 2))
            nreq += 1
        elif kind == 'subscribe':
            flow.subscribe('str')
            nreq += 1
        elif kind == 'unsubscribe':
            flow.unsubscribe('str')
            nreq += 1
        elif kind == 'advance':
            n0 = len(flow.all_packets())
            flow.advance(hi=100)
            if len(flow.all_packets()) > n0:
                eng.count('retry-fired')
        elif kind in ('SUBACK', 'UNSUBACK'):
            flow.rx(kind)
        elif kind == 'disconnect':
            e = flow.disconnect()
            if e is None:
                c.disconnected = True
                eng.count('disconnect')
            else:
                w.events = [x for x in w.events if not (x.kind == 'exc' and x.a[1] is e)]
        elif kind == 'reconnect':
            if not c.lost:
                flow.lose()
                census(flow, 'loss')
            clean = eng.bool('clean-reconnect')
            flow.open(connack=False, clean=clean)
            census(flow, 'connect')
            if profile != 'subscriber' and eng.choose(2, 'publish-before-connack'):
                flow.publish(qos=eng.int('qos', 1, 2))
                census(flow, 'early publish')
                eng.count('early-publish')
                if params.get('lost_before_connack') and not getattr(flow, 'lbc_done', False):
                    # the connection dies between CONNECT and CONNACK
                    flow.lbc_done = True
                    flow.lose(clean_close=False)
                    census(flow, 'loss before CONNACK')
                    eng.count('lost-before-connack')
                    flow.open(connack=False, clean=clean)
            flow.connack(eng.int('sp', 0, 1))
            eng.count('clean-reconnect' if eng.valid(as_int(clean) == 1) else 'resumed')
        else:
            c05.deliver_ack(flow, kind)
        census(flow, kind)
    # ---- a long stretch of virtual time after the history
    flow.advance(100)
    census(flow, 'later')
    flow.advance(10000)
    census(flow, 'much later')
    if not flow.c.lost:
        flow.lose()
        census(flow, 'final loss')
        flow.advance(1)
        flow.advance(1000)
        eng.check(not w.pending_timers(), 'timer-outlives-connection', '%d timers left long after every connection was lost' % len(w.pending_timers()))
    settled_silence(flow)
    # a request that was failed or purged is never written afterwards, on any connection (matched by its unique topic)
    allp = flow.all_packets()
    for r in flow.reqs:
        if r.kind == 'publish' and r.tr is not None and r.tr.fired and not r.tr.fired[0][1]:
            s0 = r.tr.fired[0][0]
            for (s_, c_, p_) in allp:
                if s_ > s0 and p_['type'] == 'PUBLISH' and all_eq(p_['topic'], r.topic) is True:
                    eng.check(False, 'write-for-settled-request', 'PUBLISH of a failed/purged request written in step %d (%s)' % (s_, w.steps[s_][0]),
                              sig='write-for-settled-request:PUBLISH:failed')
    # QoS 0 messages of a purged session must not show up later either
    for r in flow.reqs:
        if r.kind == 'publish' and r.tr is not None and r.accepted() and as_int(r.conn.clean) == 1 and r.conn.lost:
            for (s_, c_, p_) in allp:
                if c_ is not r.conn and p_['type'] == 'PUBLISH' and all_eq(p_['topic'], r.topic) is True:
                    eng.check(False, 'write-for-settled-request', 'a PUBLISH accepted on a lost clean-session connection was written on a later connection',
                              sig='write-for-settled-request:PUBLISH:purged')
    return flow.finish()


HARNESSES = {'silence': h_silence}


def shards(tier):
    T = tier == 'thorough'
    out = []
    for profile in ('pubsubs', 'publisher', 'subscriber'):
        for persistent in (False, True):
            for first in KINDS:
                for second in KINDS:
                    if profile != 'pubsubs' and not T and second not in ('advance', 'reconnect', 'disconnect', 'publish', 'subscribe'):
                        continue
                    out.append(('silence', {'profile': profile, 'persistent': persistent, 'k': 5 if T else 4, 'maxreq': 3,
                                            'first': first, 'second': second}))
                    if profile == 'publisher' and first == 'publish' and second in ('publish', 'reconnect', 'PUBACK', 'advance'):
                        out.append(('silence', {'profile': profile, 'persistent': persistent, 'k': 5 if T else 4, 'maxreq': 3,
                                                'first': first, 'second': second, 'qos0': True}))
                        out.append(('silence', {'profile': profile, 'persistent': persistent, 'k': 4 if T else 3, 'maxreq': 3,
                                                'first': first, 'second': second, 'near_wrap': True}))
                    if 'reconnect' in (first, second) and profile != 'subscriber' and (T or second in ('advance', 'reconnect', 'publish', 'PUBACK')):
                        out.append(('silence', {'profile': profile, 'persistent': persistent, 'k': 4 if T else 3, 'maxreq': 3,
                                                'first': first, 'second': second, 'lost_before_connack': True}))
    return out


META = {
    'rule': 'histories of k free steps over requests of every kind, acknowledgements with symbolic identifiers, symbolic time, disconnect(), loss + rebuilt protocol '
            '+ connect(clean symbolic) (+ publish before CONNACK) + CONNACK; after EVERY step a census of reactor.getDelayedCalls() against the number of packets '
            'awaiting acknowledgement computed from the wire and receive logs; then 100 s, 10000 s, final loss, 1001 s',
    'bounds': {'quick': 'k=4 with at most 3 requests (QoS 1..2; variants with QoS 0..2 and with the identifier counter placed at 65533..65535); 3 profiles; clean and persistent first session', 'thorough': 'k=5 with at most 3 requests (pubsubs), k=4 variants'},
    'stubs': ['fake transport with asynchronous loss', 'twisted task.Clock', 'jitter: fixed sequence',
              'the onDisconnection notification is recognised as the handler the harness installed (target of the delayed call)'],
    'outside': ['keepalive > 0 (its timers are the subject of C15)', 'timers between abortConnection() and the loss report'],
    'assumptions': ['acknowledgement types fit the exchange they may address'],
}

MANIFEST = {
    'text': 'After every step of every explored history (all profiles, both session modes, requests issued before and after CONNACK, acknowledgements, expiries, disconnect, losses, reconnects) the pending reactor timers are counted against the number of packets that await acknowledgement on a live connection according to the reference-parsed logs: one timer each, none for settled or carried-but-not-yet-resumed requests, none after a loss except the notification and a running CONNACK time-out; then 10000 s of virtual time must write nothing for settled requests or to lost transports.',
    'design_ref': '7 C13',
    'note': 'trusted: z3, engine, reference codec, Twisted Clock.',
}
