"""C02 - bytes on the wire equal the specification (independent reference codec)"""
from .. import codec
from . import c01

PROPERTY = 'C02'
HARNESSES = codec.HARNESSES
BUDGET = {'quick': {'seconds': 600, 'xreplay_every': 25}, 'thorough': {'seconds': 3000, 'xreplay_every': 200}}
NONTRIVIAL = {'quick': ['connect', 'publish.qos>0', 'ack', 'subscribe', 'unsubscribe', 'suback', 'connack', 'empty',
                        'dec.CONNACK', 'dec.PUBLISH', 'dec.SUBACK', 'dec.PUBREL', 'range16.rejected', 'range16.accepted',
                        'longstring.rejected', 'longstring.accepted', 'payloadtype', 'live.first', 'live.repeat']}


def shards(tier):
    T = tier == 'thorough'
    out = []
    for (h, p) in c01.shards(tier):
        if h in ('prim16', 'primlen', 'primstr'):
            out.append((h, p))      # these already compare with the reference bytes
        else:
            q = dict(p)
            q['oracle'] = 'ref'
            out.append((h, q))
    for cls in ('CONNACK', 'PUBACK', 'PUBREC', 'PUBREL', 'PUBCOMP', 'UNSUBACK'):
        out.append(('decode_ref', {'cls': cls}))
    for n in ((1, 2, 3) if T else (1, 2)):
        out.append(('decode_ref', {'cls': 'SUBACK', 'ngranted': n}))
    for nt in ((0, 1, 2, 3) if T else (0, 1, 2)):
        for npl in ((0, 2, 3) if T else (0, 2)):
            out.append(('decode_ref', {'cls': 'PUBLISH', 'ntopic': nt, 'npayload': npl}))
    for rl in ((127, 128, 16383, 16384, 2097151, 2097152) if T else (127, 128, 16383, 16384)):
        out.append(('decode_ref', {'cls': 'PUBLISH', 'ntopic': 1, 'npayload': 2, 'payload_filler': rl - 7}))
    for cls in ('PUBACK', 'PUBREC', 'PUBREL', 'PUBCOMP', 'UNSUBACK', 'SUBACK', 'SUBSCRIBE', 'UNSUBSCRIBE', 'PUBLISH'):
        out.append(('range16', {'cls': cls}))
    for v in (31, 311):
        out.append(('range16', {'cls': 'CONNECT', 'version': v}))
    for nbytes in (65535, 65536, 65537):
        for straddle in (0, 1):
            for cls, field in (('PUBLISH', 'topic'), ('SUBSCRIBE', 'topic'), ('UNSUBSCRIBE', 'topic'), ('CONNECT', 'clientId'),
                               ('CONNECT', 'willTopic'), ('CONNECT', 'willMessage'), ('CONNECT', 'username'), ('CONNECT', 'password')):
                out.append(('longstring', {'cls': cls, 'field': field, 'nbytes': nbytes, 'straddle': straddle, 'version': 311}))
    for ver in (31, 311):
        for req in ('pub0', 'pub1', 'pub2', 'pubrel', 'unsub', 'inbound', 'disconnect'):
            out.append(('live', {'ver': ver, 'req': req, 'retries': 3 if T else 2}))
        for shape in ('str', 'tuple', 'list'):
            out.append(('live', {'ver': ver, 'req': 'sub', 'shape': shape, 'retries': 3 if T else 2}))
        out.append(('live', {'ver': ver, 'req': 'unsub', 'shape': 'list', 'retries': 2}))
        out.append(('live', {'ver': ver, 'req': 'pubrel', 'retries': 2, 'then_inbound': True}))
        out.append(('live', {'ver': ver, 'req': 'ping', 'keepalive': 5}))
    for t in sorted(codec.BAD_PAYLOADS):
        out.append(('payloadtype', {'type': t}))
    return out


META = dict(c01.META)
META['rule'] = ('same symbolic input space as C01, oracle = independent reference codec (harness/refcodec.py): one validity query per '
                'packet comparing every byte; plus reference-encoded broker packets decoded by the implementation, unconstrained 16-bit '
                'fields, 65535/65536/65537-byte strings, wrong payload types')
META['outside'] = c01.META['outside'] + ['live sessions: one request of each kind with its first transmission and 2 (T: 3) retransmissions, inbound QoS 1/2 acknowledgements, PINGREQ, DISCONNECT; longer sessions are parsed by the flow checks']

MANIFEST = {
    'text': 'Same symbolic input space as C01 but judged against an independent reference encoder/strict decoder written from the OASIS text: byte-for-byte equality of every encoded packet is one validity query per path; reference-encoded broker packets are decoded by the implementation; unconstrained 16-bit fields and 65535/65536/65537-byte strings decide the ValueError boundary; wrong payload types are enumerated.',
    'design_ref': '7 C02',
    'note': 'trusted: z3, the proxy-value engine (validated by concrete cross-replay of sampled paths and by replaying every counterexample on native types), the reference codec harness/refcodec.py, CPython. Bounds and what lies outside them are in the evidence file (coverage.bounds / outside_claim).',
}
