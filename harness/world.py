"""Scenario driver shared by all state-machine properties.

The same code runs in symbolic mode (values are proxies created by symex.engine.Engine)
and in concrete mode (values come from a model through symex.env.ConcreteEngine).
Everything outside mqtt.* is a stub with the contract documented in DESIGN.md section 3.
"""
from twisted.internet.address import IPv4Address
from twisted.internet import error as tw_error
from twisted.python import failure

from symex import env as senv
from symex import proxies as px
from . import refcodec as ref

PROFILES = {'subscriber': 1, 'publisher': 2, 'pubsubs': 3}


# ------------------------------------------------------------------------------ value helpers

def mkbytes(eng, lst):
    """immutable bytes as they arrive from the network"""
    if eng.symbolic:
        return px.SymBytes.of(lst)
    return bytes(lst)


def mkbytearray(eng, lst):
    if eng.symbolic:
        return px.SymBytes.of(lst)
    return bytearray(lst)


def mkstr(eng, cps):
    if eng.symbolic:
        return px.SymStr(cps)
    return ''.join(chr(c) for c in cps)


def blist(b):
    """list of byte values of whatever the code under test wrote"""
    if isinstance(b, px.SymBytes):
        return list(b.d)
    return list(b)


def cplist(s):
    if isinstance(s, px.SymStr):
        return list(s.cps)
    return [ord(c) for c in s]


def as_int(x):
    """SymBool/bool -> 0/1 value"""
    if isinstance(x, px.SymBool):
        return x._int()
    if isinstance(x, bool):
        return int(x)
    return x


def lnot(x):
    """logical negation of a native or symbolic boolean"""
    if isinstance(x, px.SymBool):
        return px.wrap(px.tm.not_(x.t))
    return not x


def all_eq(xs, ys):
    """conjunction of elementwise equalities as one condition (False if lengths differ)"""
    if len(xs) != len(ys):
        return False
    r = True
    for a, b in zip(xs, ys):
        c = (a == b)
        if c is True:
            continue
        if c is False or c is NotImplemented:
            return False
        r = c if r is True else (r & c)
    return r


# ------------------------------------------------------------------------------ transport stub

class FakeTransport(object):
    """records what the client asks of its transport; reports nothing back synchronously"""
    disconnecting = False

    def __init__(self, world, conn):
        self.world = world
        self.conn = conn
        self.lose_called = 0
        self.abort_called = 0

    def write(self, data):
        self.world.event('write', self.conn, data)

    def writeSequence(self, seq):
        for d in seq:
            self.write(d)

    def loseConnection(self):
        self.lose_called += 1
        self.world.event('lose', self.conn)

    def abortConnection(self):
        self.abort_called += 1
        self.world.event('abort', self.conn)

    def getPeer(self):
        return self.conn.addr

    def getHost(self):
        return IPv4Address('TCP', '127.0.0.1', 50000)

    def stopReading(self):
        pass

    def setTcpNoDelay(self, x):
        pass

    def setTcpKeepAlive(self, x):
        pass


class Conn(object):
    def __init__(self, world, idx, ai, addr):
        self.world = world
        self.idx = idx
        self.ai = ai
        self.addr = addr
        self.p = None
        self.t = None
        self.lost = False       # loss has been reported to the protocol
        self.closing = False    # client asked the transport to close / abort
        self.pending_tail = []  # bytes of an incomplete packet written so far


class Ev(object):
    """one observation"""
    __slots__ = ('kind', 'conn', 'step', 'time', 'a')

    def __init__(self, kind, conn, step, time, a):
        self.kind = kind
        self.conn = conn
        self.step = step
        self.time = time
        self.a = a

    def __repr__(self):
        return 'Ev(%s c%s s%d %r)' % (self.kind, self.conn.idx if self.conn else '-', self.step, self.a)


class Tracked(object):
    """a Deferred returned by the API, with its outcome log"""

    def __init__(self, world, d, tag, conn):
        self.d = d
        self.tag = tag
        self.conn = conn
        self.fired = []   # (step, ok, value)
        self.step = len(world.steps) - 1
        self.msgId = getattr(d, 'msgId', None)
        self.info = {}


class World(object):
    def __init__(self, eng, profile='pubsubs', naddr=1, jitter_pool=None):
        self.eng = eng
        self.env = senv.Env(eng)
        self.env.jitter_pool = jitter_pool
        senv.install(self.env)
        self.clock = self.env.clock
        senv.base.MQTTBaseProtocol.callLater = self.callLater
        self.profile = profile
        self.fac = senv.factory.MQTTFactory(PROFILES.get(profile, profile))
        self.addrs = [IPv4Address('TCP', '10.0.0.%d' % (i + 1), 1883) for i in range(naddr)]
        self.conns = []
        self.events = []
        self.steps = []       # (kind, info)
        self.tracked = []
        self.timer_owner = {}
        self._seen_addr = set()
        self.begin_step('init')

    # ---- time
    def callLater(self, delay, f, *a, **k):
        world = self

        def guarded():
            try:
                f(*a, **k)
            except Exception as e:
                world.event('exc', None, ('timer', e))
        guarded.target = (f, a)
        dc = self.clock.callLater(delay, guarded)
        return dc

    def now(self):
        return self.clock.seconds()

    # ---- log
    def begin_step(self, kind, **info):
        self.steps.append((kind, info))
        return len(self.steps) - 1

    def event(self, kind, conn, a=None):
        self.events.append(Ev(kind, conn, len(self.steps) - 1, self.clock.seconds(), a))

    def step_events(self, step=None, kind=None, conn=None):
        if step is None:
            step = len(self.steps) - 1
        return [e for e in self.events if e.step == step and (kind is None or e.kind == kind) and (conn is None or e.conn is conn)]

    def excs(self, step=None):
        return [e for e in self.events if e.kind == 'exc' and (step is None or e.step == step)]

    # ---- connections
    def build(self, ai=0):
        addr = self.addrs[ai]
        p = self.fac.buildProtocol(addr)
        if self.eng.symbolic:
            # identifier-keyed containers must compare keys symbolically; whatever container the factory
            # provides for this address (kept from before or freshly made) is wrapped, contents preserved
            for w in (self.fac.windowPublish, self.fac.windowPubRelease, self.fac.windowPubRx,
                      self.fac.windowSubscribe, self.fac.windowUnsubscribe):
                if isinstance(w.get(addr), dict):
                    w[addr] = px.SymDict(w[addr])
        self._seen_addr.add(ai)
        c = Conn(self, len(self.conns), ai, addr)
        c.p = p
        c.t = FakeTransport(self, c)
        self.conns.append(c)
        p.onDisconnection = lambda reason, c=c: self.event('onDisconnection', c, reason)
        if hasattr(p, 'onPublish'):
            p.onPublish = lambda topic, payload, qos, dup, retain, msgId, c=c: self.event(
                'onPublish', c, (topic, payload, qos, dup, retain, msgId))
        if hasattr(p, 'onMqttConnectionMade'):
            p.onMqttConnectionMade = lambda c=c: self.event('onMqttConnectionMade', c)
        p.makeConnection(c.t)
        return c

    # ---- API calls (each records exceptions that escape)
    def call(self, conn, name, *a, **k):
        """call an API method; returns (result, exception)"""
        try:
            r = getattr(conn.p, name)(*a, **k)
        except Exception as e:
            self.event('exc', conn, ('api:' + name, e))
            return None, e
        return r, None

    def track(self, d, tag, conn):
        tr = Tracked(self, d, tag, conn)
        self.tracked.append(tr)
        world = self

        def cb(v):
            tr.fired.append((len(world.steps) - 1, True, v))
            world.event('fire', conn, (tr, True, v))
            return None

        def eb(f):
            tr.fired.append((len(world.steps) - 1, False, f))
            world.event('fire', conn, (tr, False, f))
            return None
        d.addCallbacks(cb, eb)
        return tr

    def api(self, conn, name, tag, *a, **k):
        """API call that returns a Deferred -> Tracked (or None if it raised)"""
        r, e = self.call(conn, name, *a, **k)
        if e is not None or r is None:
            return None
        return self.track(r, tag, conn)

    # ---- network / faults
    def rx(self, conn, data, force=False):
        """deliver bytes; no delivery after the client closed or the loss was reported"""
        if (conn.lost or conn.closing) and not force:
            return False
        try:
            conn.p.dataReceived(data)
        except Exception as e:
            self.event('exc', conn, ('dataReceived', e))
        if conn.t.abort_called or conn.t.lose_called:
            conn.closing = True
        return True

    def rx_list(self, conn, lst, force=False):
        return self.rx(conn, mkbytes(self.eng, lst), force)

    def advance(self, dt):
        try:
            self.clock.advance(dt)
        except Exception as e:
            self.event('exc', None, ('advance', e))
        for c in self.conns:
            if c.t.abort_called or c.t.lose_called:
                c.closing = True

    def after_api(self):
        for c in self.conns:
            if c.t.abort_called or c.t.lose_called:
                c.closing = True

    def lose(self, conn, clean=True):
        """the transport reports the loss"""
        exc = tw_error.ConnectionDone() if clean else tw_error.ConnectionLost()
        reason = failure.Failure(exc)
        conn.lost = True
        conn.reason = reason
        try:
            conn.p.connectionLost(reason)
        except Exception as e:
            self.event('exc', conn, ('connectionLost', e))
        return reason

    # ---- observations for cross replay
    def trace(self):
        out = []
        for e in self.events:
            a = e.a
            if e.kind == 'write':
                a = blist(a) if self.eng.symbolic else bytes(a)
                if self.eng.symbolic:
                    a = px.SymBytes.of(a)
            elif e.kind == 'exc':
                a = (a[0], type(a[1]).__name__)
            elif e.kind == 'fire':
                tr, ok, v = a
                if not ok:
                    v = type(v.value).__name__
                elif isinstance(v, list):
                    v = [tuple(x) if isinstance(x, tuple) else x for x in v]
                a = (tr.tag, ok, v)
            elif e.kind == 'onDisconnection':
                a = type(a.value).__name__
            elif e.kind == 'onPublish':
                topic, payload, qos, dup, retain, mid = a
                a = (topic, payload, qos, dup, retain, mid)
            out.append((e.kind, e.conn.idx if e.conn else -1, e.step, e.time, a))
        return out

    def pending_timers(self):
        return [dc for dc in self.clock.getDelayedCalls() if not dc.cancelled and not dc.called]


# ------------------------------------------------------------------------------ wire parsing

def parse_writes(world, conn, step=None, v31=False):
    """packets the client wrote on conn (during `step`, or over the whole history): strict
    reference parse.  Returns (packets, error)."""
    data = []
    for e in world.events:
        if e.kind == 'write' and e.conn is conn and (step is None or e.step == step):
            data.extend(blist(e.a))
    try:
        return ref.parse_stream(data, v31=v31, direction=ref.CLIENT_TO_BROKER), None
    except ref.Malformed as m:
        return None, str(m)


def exc_sig(where, exc):
    """signature of an escaped exception: entry point, type, innermost repository function"""
    fn = '?'
    tb = exc.__traceback__
    root = senv.REPO_SRC
    while tb is not None:
        f = tb.tb_frame.f_code
        if f.co_filename.startswith(root):
            fn = f.co_name
        tb = tb.tb_next
    return 'exc:%s:%s:%s' % (where, type(exc).__name__, fn)


def check_no_exceptions(world, label='no-exception', steps=None):
    """every exception that escaped an entry point or a timer is a violation of its own signature"""
    ok = True
    for e in world.excs():
        if steps is not None and e.step not in steps:
            continue
        where, exc = e.a
        world.eng.check(False, label, '%s raised %r in step %d (%s)' % (where, exc, e.step, world.steps[e.step][0]),
                        sig=label + ':' + exc_sig(where, exc))
        ok = False
    for f in world.env.loop_errors:
        world.eng.check(False, label, 'keepalive loop died with %r' % (f.value,), sig=label + ':' + exc_sig('keepalive-loop', f.value))
        ok = False
    return ok
