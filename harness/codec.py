"""Harnesses over mqtt.pdu shared by C01 (round trip) and C02 (reference bytes)."""
from symex import env as senv
from symex import proxies as px
from . import refcodec as ref
from .world import mkstr, mkbytes, mkbytearray, blist, cplist, all_eq, as_int

pdu = senv.pdu
CP_MAX = 0x10FFFF


def install(eng):
    e = senv.Env(eng)
    senv.install(e)
    return e


def sym_cps(eng, name, n):
    return [eng.int(name, 0, CP_MAX) for _ in range(n)]


def sym_str(eng, name, nsym, filler=0, fill_cp=0x61):
    """nsym symbolic code points, the first at the head, the rest at the tail of `filler` ASCII characters"""
    cps = sym_cps(eng, name, nsym)
    if filler:
        cps = cps[:1] + [fill_cp] * filler + cps[1:]
    return mkstr(eng, cps)


def sym_bytes(eng, name, nsym, filler=0):
    bs = [eng.int(name, 0, 255) for _ in range(nsym)]
    if filler:
        bs = bs[:1] + [0x5A] * filler + bs[1:]
    return bs


def version_of(params):
    return senv.mqtt.v31 if params.get('version') == 31 else senv.mqtt.v311


def wire(eng, enc):
    """what a decoder is handed in the client: a bytearray slice of the receive buffer"""
    return mkbytearray(eng, blist(enc))


def str_eq(a, b):
    if a is None or b is None:
        return a is None and b is None
    if isinstance(a, (bytes, bytearray, px.SymBytes)) or isinstance(b, (bytes, bytearray, px.SymBytes)):
        return False
    return all_eq(cplist(a), cplist(b))


def bytes_eq(a, b):
    if a is None or b is None:
        return a is None and b is None
    return all_eq(blist(a), blist(b))


def utf8_of(s):
    return ref.utf8_encode(s)


def flag_eq(decoded, given):
    """decoded flags are booleans; given ones may be bool-like"""
    return as_int(decoded) == as_int(given)


class Skip(Exception):
    """input is not a valid assignment (e.g. a surrogate code point in a string)"""


def try_encode(obj):
    try:
        return obj.encode()
    except UnicodeEncodeError:
        raise Skip()


def require_scalar(*strings):
    """strings containing surrogate code points are not valid assignments"""
    for s in strings:
        if s is None:
            continue
        try:
            ref.utf8_encode(s)
        except ValueError:
            raise Skip()


# ------------------------------------------------------------------------------ builders
# each returns (request object, fields dict used by the oracles)

def build_connect(eng, params):
    p = pdu.CONNECT()
    rich = params.get('rich', 'clientId')
    n = params.get('ncp', 2)

    def s(name):
        if rich == name:
            return sym_str(eng, name, n)
        return sym_str(eng, name, params.get('ncp_other', 0), filler=0) if params.get('ncp_other', 0) else mkstr(eng, [0x78])
    p.clientId = s('clientId')
    p.keepalive = eng.int('keepalive', 0, 65535)
    p.cleanStart = eng.bool('clean')
    p.version = version_of(params)
    if params.get('will'):
        p.willTopic = s('willTopic')
        p.willMessage = s('willMessage')
        p.willQoS = eng.int('willQoS', 0, 2)
        p.willRetain = eng.bool('willRetain')
    else:
        p.willTopic = None
        p.willMessage = None
        if params.get('stray_will_args'):
            # connect() accepts a will QoS / retain flag without a will: they must not reach the wire
            p.willQoS = eng.int('willQoS', 0, 2)
            p.willRetain = eng.bool('willRetain')
        else:
            p.willQoS = 0
            p.willRetain = False
    p.username = s('username') if params.get('user') else None
    p.password = s('password') if params.get('password') else None
    return p


def ref_connect(p):
    will = None
    if p.willTopic is not None and p.willMessage is not None:
        will = (p.willTopic, p.willMessage, p.willQoS, p.willRetain)
    pw = None if p.password is None else utf8_of(p.password)
    return ref.enc_connect(p.version['level'], p.clientId, p.keepalive, p.cleanStart, will, p.username, pw)


def check_connect_rt(eng, p, q):
    eng.check(q.version == p.version, 'connect.version')
    eng.check(flag_eq(q.cleanStart, p.cleanStart), 'connect.cleanStart')
    eng.check(q.keepalive == p.keepalive, 'connect.keepalive')
    eng.check(str_eq(q.clientId, p.clientId), 'connect.clientId')
    if p.willTopic is not None:
        eng.check(str_eq(q.willTopic, p.willTopic), 'connect.willTopic')
        eng.check(str_eq(q.willMessage, p.willMessage), 'connect.willMessage')
        eng.check(q.willQoS == p.willQoS, 'connect.willQoS')
        eng.check(flag_eq(q.willRetain, p.willRetain), 'connect.willRetain')
    else:
        eng.check(q.willTopic is None and q.willMessage is None, 'connect.nowill')
    if p.username is not None:
        eng.check(str_eq(q.username, p.username), 'connect.username')
    else:
        eng.check(q.username is None, 'connect.nouser')
    if p.password is not None:
        eng.check(q.password is not None and bytes_eq(q.password, utf8_of(p.password)), 'connect.password',
                  'password does not come back as its UTF-8 bytes')
    else:
        eng.check(q.password is None, 'connect.nopassword')


def build_publish(eng, params):
    p = pdu.PUBLISH()
    p.qos = eng.int('qos', 0, 2)
    p.dup = eng.bool('dup')
    p.retain = eng.bool('retain')
    p.topic = sym_str(eng, 'topic', params.get('ntopic', 2), params.get('topic_filler', 0))
    kind = params.get('payload', 'bytes')
    n = params.get('npayload', 2)
    if kind == 'bytes':
        p.payload = mkbytearray(eng, sym_bytes(eng, 'pl', n, params.get('payload_filler', 0)))
    else:
        p.payload = sym_str(eng, 'pl', n, params.get('payload_filler', 0))
    # the identifier only exists for QoS > 0 (the client sets None for QoS 0)
    if p.qos:
        p.msgId = eng.int('msgId', 0, 65535)
    else:
        p.msgId = None
        # DUP is meaningless at QoS 0 and not encoded by this implementation's QoS 0 branch
        p.dup = False
    return p


def payload_bytes(p):
    if isinstance(p.payload, (str, px.SymStr)):
        return utf8_of(p.payload)
    return blist(p.payload)


def ref_publish(p):
    return ref.enc_publish(p.topic, payload_bytes(p), p.qos, p.dup, p.retain, p.msgId)


def check_publish_rt(eng, p, q):
    eng.check(q.qos == p.qos, 'publish.qos')
    eng.check(flag_eq(q.retain, p.retain), 'publish.retain')
    eng.check(flag_eq(q.dup, p.dup), 'publish.dup')
    if p.msgId is None:
        eng.check(q.msgId is None, 'publish.noid')
    else:
        eng.check(q.msgId == p.msgId, 'publish.msgId')
    eng.check(str_eq(q.topic, p.topic), 'publish.topic')
    eng.check(bytes_eq(q.payload, payload_bytes(p)), 'publish.payload')


ACKS = {'PUBACK': ref.PUBACK, 'PUBREC': ref.PUBREC, 'PUBREL': ref.PUBREL, 'PUBCOMP': ref.PUBCOMP, 'UNSUBACK': ref.UNSUBACK}


def build_ack(eng, params):
    p = getattr(pdu, params['cls'])()
    p.msgId = eng.int('msgId', 0, 65535)
    if params['cls'] == 'PUBREL':
        p.dup = False
    return p


def ref_ack(p, params):
    return ref.enc_ack(ACKS[params['cls']], p.msgId)


def build_subscribe(eng, params):
    p = pdu.SUBSCRIBE()
    p.msgId = eng.int('msgId', 0, 65535)
    nt = params.get('ntopics', 1)
    p.topics = [(sym_str(eng, 'topic', params.get('ncp', 1), params.get('topic_filler', 0) if i == 0 else 0),
                 eng.int('qos', 0, 2)) for i in range(nt)]
    return p


def build_unsubscribe(eng, params):
    p = pdu.UNSUBSCRIBE()
    p.msgId = eng.int('msgId', 0, 65535)
    nt = params.get('ntopics', 1)
    p.topics = [sym_str(eng, 'topic', params.get('ncp', 1), params.get('topic_filler', 0) if i == 0 else 0) for i in range(nt)]
    return p


def build_suback(eng, params):
    p = pdu.SUBACK()
    p.msgId = eng.int('msgId', 0, 65535)
    p.granted = [(eng.int('granted', 0, 127), eng.bool('fail')) for _ in range(params.get('ngranted', 2))]
    return p


def build_connack(eng, params):
    p = pdu.CONNACK()
    p.session = eng.bool('session')
    p.resultCode = eng.int('rc', 0, 255)
    return p


# ------------------------------------------------------------------------------ harnesses

def h_prim16(eng, params):
    install(eng)
    v = eng.int('v', 0, 65535)
    e = pdu.encode16Int(v)
    eng.check(len(e) == 2, 'u16.len')
    d = pdu.decode16Int(wire(eng, e))
    eng.check(d == v, 'u16.roundtrip')
    eng.check(bytes_eq(e, ref.enc_u16(v)), 'u16.bytes')
    e2 = pdu.encode16Int(v)
    eng.check(bytes_eq(e, e2), 'u16.deterministic')
    eng.count('u16')
    return {'enc': e, 'dec': d}


def h_primlen(eng, params):
    install(eng)
    v = eng.int('v', 0, 268435455)
    e = pdu.encodeLength(v)
    n = len(e)
    eng.check(n == (1 if v < 128 else 2 if v < 16384 else 3 if v < 2097152 else 4), 'len.size')
    d = pdu.decodeLength(wire(eng, e))
    eng.check(d == v, 'len.roundtrip')
    # continuation bits exactly on all but the last byte, base-128 little endian
    bl = blist(e)
    acc = 0
    mult = 1
    for i, b in enumerate(bl):
        eng.check((b >= 128) if i < n - 1 else (b < 128), 'len.continuation')
        acc = acc + (b % 128) * mult
        mult *= 128
    eng.check(acc == v, 'len.value')
    # decoder ignores what follows the field
    tail = [eng.int('t', 0, 255), eng.int('t', 0, 255)]
    d2 = pdu.decodeLength(mkbytearray(eng, bl + tail))
    eng.check(d2 == v, 'len.roundtrip.tail')
    eng.count('len.class%d' % n)
    return {'enc': e, 'dec': d}


def h_primstr(eng, params):
    install(eng)
    s = sym_str(eng, 'c', params['ncp'], params.get('filler', 0))
    try:
        e = pdu.encodeString(s)
    except UnicodeEncodeError:
        eng.count('str.surrogate')
        return None
    except ValueError:
        # only legal when the UTF-8 form is longer than 65535 bytes
        eng.check(len(utf8_of(s)) > 65535, 'str.valueerror', 'encodeString raised ValueError for a representable string')
        eng.count('str.toolong')
        return None
    r = ref.utf8_encode(s)
    eng.check(len(r) <= 65535, 'str.accepted-too-long')
    eng.check(bytes_eq(e, ref.enc_string(s)), 'str.bytes')
    tail = [eng.int('t', 0, 255)]
    d, rest = pdu.decodeString(mkbytearray(eng, blist(e) + tail))
    eng.check(str_eq(d, s), 'str.roundtrip')
    eng.check(bytes_eq(rest, tail), 'str.rest')
    if len(r) > len(cplist(s)):
        eng.count('str.multibyte')
    eng.count('str.bytes%d' % min(len(r), 4) if not params.get('filler') else 'str.filler')
    return {'enc': e, 'dec': d}


def _rt(eng, p, cls):
    enc = try_encode(p)
    enc2 = try_encode(p)
    eng.check(bytes_eq(enc, enc2), 'deterministic')
    q = cls()
    q.decode(wire(eng, enc))
    return enc, q


def h_connect(eng, params):
    install(eng)
    p = build_connect(eng, params)
    try:
        require_scalar(p.clientId, p.willTopic, p.willMessage, p.username, p.password)
        enc, q = _rt(eng, p, pdu.CONNECT)
    except Skip:
        return None
    if params.get('oracle') == 'ref':
        eng.check(bytes_eq(enc, ref_connect(p)), 'connect.bytes', 'CONNECT bytes differ from the reference encoding')
    else:
        check_connect_rt(eng, p, q)
    eng.count('connect')
    if p.password is not None and len(utf8_of(p.password)) != len(cplist(p.password)):
        eng.count('connect.multibyte-password')
    return {'enc': enc}


def h_publish(eng, params):
    install(eng)
    p = build_publish(eng, params)
    try:
        enc, q = _rt(eng, p, pdu.PUBLISH)
    except Skip:
        return None
    if params.get('oracle') == 'ref':
        eng.check(bytes_eq(enc, ref_publish(p)), 'publish.bytes', 'PUBLISH bytes differ from the reference encoding')
    else:
        check_publish_rt(eng, p, q)
    eng.count('publish')
    if p.msgId is not None:
        eng.count('publish.qos>0')
    return {'enc': enc}


def h_ack(eng, params):
    install(eng)
    p = build_ack(eng, params)
    enc, q = _rt(eng, p, getattr(pdu, params['cls']))
    if params.get('oracle') == 'ref':
        eng.check(bytes_eq(enc, ref_ack(p, params)), 'ack.bytes', '%s bytes differ from the reference encoding' % params['cls'],
                  sig='ack.bytes:' + params['cls'])
    else:
        eng.check(q.msgId == p.msgId, 'ack.msgId')
        if params['cls'] == 'PUBREL':
            eng.check(flag_eq(q.dup, False), 'pubrel.dup')
    eng.count('ack')
    return {'enc': enc}


def h_subscribe(eng, params):
    install(eng)
    p = build_subscribe(eng, params)
    try:
        enc, q = _rt(eng, p, pdu.SUBSCRIBE)
    except Skip:
        return None
    if params.get('oracle') == 'ref':
        eng.check(bytes_eq(enc, ref.enc_subscribe(p.msgId, p.topics)), 'subscribe.bytes')
    else:
        eng.check(q.msgId == p.msgId, 'subscribe.msgId')
        eng.check(len(q.topics) == len(p.topics), 'subscribe.ntopics')
        for (t1, q1), (t0, q0) in zip(q.topics, p.topics):
            eng.check(str_eq(t1, t0), 'subscribe.topic')
            eng.check(q1 == q0, 'subscribe.qos')
    eng.count('subscribe')
    return {'enc': enc}


def h_unsubscribe(eng, params):
    install(eng)
    p = build_unsubscribe(eng, params)
    try:
        enc, q = _rt(eng, p, pdu.UNSUBSCRIBE)
    except Skip:
        return None
    if params.get('oracle') == 'ref':
        eng.check(bytes_eq(enc, ref.enc_unsubscribe(p.msgId, p.topics)), 'unsubscribe.bytes')
    else:
        eng.check(q.msgId == p.msgId, 'unsubscribe.msgId')
        eng.check(len(q.topics) == len(p.topics), 'unsubscribe.ntopics')
        for t1, t0 in zip(q.topics, p.topics):
            eng.check(str_eq(t1, t0), 'unsubscribe.topic')
    eng.count('unsubscribe')
    return {'enc': enc}


def h_suback(eng, params):
    install(eng)
    p = build_suback(eng, params)
    enc, q = _rt(eng, p, pdu.SUBACK)
    if params.get('oracle') == 'ref':
        eng.check(bytes_eq(enc, ref.enc_suback(p.msgId, [g + 128 * as_int(f) for g, f in p.granted])), 'suback.bytes')
    else:
        eng.check(q.msgId == p.msgId, 'suback.msgId')
        eng.check(len(q.granted) == len(p.granted), 'suback.n')
        for (g1, f1), (g0, f0) in zip(q.granted, p.granted):
            eng.check(g1 == g0, 'suback.granted')
            eng.check(flag_eq(f1, f0), 'suback.flag')
    eng.count('suback')
    return {'enc': enc}


def h_connack(eng, params):
    install(eng)
    p = build_connack(eng, params)
    enc, q = _rt(eng, p, pdu.CONNACK)
    if params.get('oracle') == 'ref':
        eng.check(bytes_eq(enc, ref.enc_connack(p.session, p.resultCode)), 'connack.bytes')
    else:
        eng.check(flag_eq(q.session, p.session), 'connack.session')
        eng.check(q.resultCode == p.resultCode, 'connack.rc')
    eng.count('connack')
    return {'enc': enc}


def h_empty(eng, params):
    install(eng)
    cls = getattr(pdu, params['cls'])
    p = cls()
    enc, q = _rt(eng, p, cls)
    want = {'PINGREQ': ref.enc_pingreq(), 'PINGRES': ref.enc_pingresp(), 'DISCONNECT': ref.enc_disconnect()}[params['cls']]
    eng.check(bytes_eq(enc, want), 'empty.bytes', sig='empty.bytes:' + params['cls'])
    eng.count('empty')
    return {'enc': enc}


HARNESSES = {
    'prim16': h_prim16, 'primlen': h_primlen, 'primstr': h_primstr, 'connect': h_connect, 'publish': h_publish,
    'ack': h_ack, 'subscribe': h_subscribe, 'unsubscribe': h_unsubscribe, 'suback': h_suback, 'connack': h_connack,
    'empty': h_empty,
}

STUBS = ['bytearray/bytes/int/str names in mqtt.pdu bound to proxy types (symbolic runs only)',
         'twisted.logger.Logger objects replaced by a no-op']


# ------------------------------------------------------------------------------ C02 extras

def h_decode_ref(eng, params):
    """broker-to-client packets in the prescribed format decode to the prescribed fields"""
    install(eng)
    cls = params['cls']
    q = getattr(pdu, cls)()
    if cls == 'CONNACK':
        sp = eng.int('sp', 0, 1)
        rc = eng.int('rc', 0, 255)
        q.decode(mkbytearray(eng, ref.enc_connack(sp, rc)))
        eng.check(as_int(q.session) == sp, 'dec.connack.session')
        eng.check(q.resultCode == rc, 'dec.connack.rc')
    elif cls in ACKS:
        mid = eng.int('msgId', 0, 65535)
        q.decode(mkbytearray(eng, ref.enc_ack(ACKS[cls], mid)))
        eng.check(q.msgId == mid, 'dec.ack.msgId', sig='dec.ack.msgId:' + cls)
    elif cls == 'SUBACK':
        mid = eng.int('msgId', 0, 65535)
        g = [eng.int('g', 0, 255) for _ in range(params.get('ngranted', 2))]
        q.decode(mkbytearray(eng, ref.enc_suback(mid, g)))
        eng.check(q.msgId == mid, 'dec.suback.msgId')
        eng.check(len(q.granted) == len(g), 'dec.suback.n')
        for (gq, fl), b in zip(q.granted, g):
            eng.check(gq == b % 128, 'dec.suback.qos')
            eng.check(as_int(fl) == b // 128, 'dec.suback.flag')
    elif cls == 'PUBLISH':
        qos = eng.int('qos', 0, 2)
        retain = eng.int('retain', 0, 1)
        topic = sym_str(eng, 'topic', params.get('ntopic', 2), params.get('topic_filler', 0))
        try:
            require_scalar(topic)
        except Skip:
            return None
        pl = sym_bytes(eng, 'pl', params.get('npayload', 2), params.get('payload_filler', 0))
        if qos:
            dup = eng.int('dup', 0, 1)
            mid = eng.int('msgId', 1, 65535)
        else:
            dup = 0
            mid = None
        q.decode(mkbytearray(eng, ref.enc_publish(topic, pl, qos, dup, retain, mid)))
        eng.check(q.qos == qos, 'dec.publish.qos')
        eng.check(as_int(q.dup) == dup, 'dec.publish.dup')
        eng.check(as_int(q.retain) == retain, 'dec.publish.retain')
        eng.check(str_eq(q.topic, topic), 'dec.publish.topic')
        eng.check(bytes_eq(q.payload, pl), 'dec.publish.payload')
        if mid is None:
            eng.check(q.msgId is None, 'dec.publish.noid')
        else:
            eng.check(q.msgId == mid, 'dec.publish.msgId')
    eng.count('dec.' + cls)
    return None


def h_range16(eng, params):
    """a 16-bit field outside 0..65535 raises ValueError; inside it yields the reference bytes"""
    install(eng)
    cls = params['cls']
    v = eng.int('v')
    p = getattr(pdu, cls)()
    if cls == 'CONNECT':
        p.clientId = mkstr(eng, [0x63])
        p.keepalive = v
        p.cleanStart = True
        p.version = version_of(params)
        p.willQoS = 0
        p.willRetain = False
        want = lambda: ref.enc_connect(p.version['level'], p.clientId, v, True)
    elif cls == 'PUBLISH':
        p.qos = 1
        p.dup = False
        p.retain = False
        p.topic = mkstr(eng, [0x74])
        p.payload = mkbytearray(eng, [1])
        p.msgId = v
        want = lambda: ref.enc_publish(p.topic, [1], 1, False, False, v)
    elif cls == 'SUBSCRIBE':
        p.msgId = v
        p.topics = [(mkstr(eng, [0x74]), 1)]
        want = lambda: ref.enc_subscribe(v, p.topics)
    elif cls == 'UNSUBSCRIBE':
        p.msgId = v
        p.topics = [mkstr(eng, [0x74])]
        want = lambda: ref.enc_unsubscribe(v, p.topics)
    elif cls == 'SUBACK':
        p.msgId = v
        p.granted = [(1, False)]
        want = lambda: ref.enc_suback(v, [1])
    else:
        p.msgId = v
        if cls == 'PUBREL':
            p.dup = False
        want = lambda: ref.enc_ack(ACKS[cls], v)
    try:
        enc = p.encode()
    except ValueError:
        eng.check((v < 0) | (v > 65535), 'range16.rejected-representable', '%s raised ValueError for a 16-bit value' % cls)
        eng.count('range16.rejected')
        return None
    eng.check((0 <= v) & (v <= 65535), 'range16.accepted-unrepresentable', '%s emitted bytes for a value outside 0..65535' % cls)
    eng.check(bytes_eq(enc, want()), 'range16.bytes', sig='range16.bytes:' + cls)
    eng.count('range16.accepted')
    return None


def h_longstring(eng, params):
    """string fields over 65535 bytes raise ValueError, 65535 is accepted"""
    install(eng)
    cls = params['cls']
    nbytes = params['nbytes']
    # ASCII filler plus one 2-byte character at the very end when `straddle`
    if params.get('straddle'):
        s = mkstr(eng, [0x61] * (nbytes - 2) + [eng.int('c', 0x80, 0x7FF)])
    else:
        s = mkstr(eng, [eng.int('c', 0x20, 0x7E)] + [0x61] * (nbytes - 1))
    p = getattr(pdu, cls)()
    field = params.get('field', 'topic')
    if cls == 'CONNECT':
        p.clientId = mkstr(eng, [0x63])
        p.keepalive = 0
        p.cleanStart = True
        p.version = version_of(params)
        p.willQoS = 0
        p.willRetain = False
        if field in ('willTopic', 'willMessage'):
            p.willTopic = mkstr(eng, [0x74])
            p.willMessage = mkstr(eng, [0x6d])
        if field == 'password':
            p.username = mkstr(eng, [0x75])
        setattr(p, field, s)
    elif cls == 'PUBLISH':
        p.qos = eng.int('qos', 0, 2)
        p.dup = False
        p.retain = False
        p.topic = s
        p.payload = mkbytearray(eng, [1])
        p.msgId = 7
    elif cls == 'SUBSCRIBE':
        p.msgId = 7
        p.topics = [(mkstr(eng, [0x74]), 1), (s, 0)]
    else:
        p.msgId = 7
        p.topics = [mkstr(eng, [0x74]), s]
    try:
        enc = p.encode()
    except ValueError:
        eng.check(nbytes > 65535, 'longstring.rejected-representable', sig='longstring.rejected:%s.%s' % (cls, field))
        eng.count('longstring.rejected')
        return None
    eng.check(nbytes <= 65535, 'longstring.accepted-unrepresentable',
              '%s.%s of %d bytes was encoded' % (cls, field, nbytes), sig='longstring.accepted:%s.%s' % (cls, field))
    eng.count('longstring.accepted')
    return None


BAD_PAYLOADS = {'None': None, 'int': 5, 'float': 12.25, 'bytes': b'abc', 'list': [1, 2], 'tuple': (1, 2), 'dict': {'a': 1},
                'bool': True, 'memoryview': memoryview(b'ab')}


def h_payloadtype(eng, params):
    """enumerated wrong payload types (no solver work beyond QoS): encode raises TypeError"""
    install(eng)
    v = BAD_PAYLOADS[params['type']]
    p = pdu.PUBLISH()
    p.qos = eng.int('qos', 0, 2)
    p.dup = False
    p.retain = eng.bool('retain')
    p.topic = mkstr(eng, [0x74])
    p.msgId = eng.int('msgId', 1, 65535)
    p.payload = v
    try:
        p.encode()
        ok = True
    except (TypeError, ValueError):
        ok = False
    eng.check(not ok, 'payloadtype', 'payload of type %s was encoded' % params['type'], sig='payloadtype:' + params['type'])
    eng.count('payloadtype')
    return None


HARNESSES.update({'decode_ref': h_decode_ref, 'range16': h_range16, 'longstring': h_longstring, 'payloadtype': h_payloadtype})


# ------------------------------------------------------------------------------ C02: bytes written during live sessions

def h_live(eng, params):
    """first transmission and retransmissions of every client packet kind, compared with the reference encoding"""
    from fractions import Fraction
    from .flow import Flow
    from .world import blist as _bl
    ver = params['ver']
    kind = params['req']
    flow = Flow(eng, 'pubsubs', ver=ver, keepalive=params.get('keepalive', 0))
    w = flow.w
    flow.open()
    c = flow.c
    flow.set_window(4)
    v31 = (ver == 31)
    expect = []      # reference encodings, in write order after CONNECT
    n0 = len([e for e in w.events if e.kind == 'write'])
    if kind in ('pub0', 'pub1', 'pub2', 'pubrel'):
        qos = {'pub0': 0, 'pub1': 1, 'pub2': 2, 'pubrel': 2}[kind]
        r = flow.publish(qos=qos)
        mid = r.msgId
        first = ref.enc_publish(mkstr(eng, r.topic), r.payload, qos, 0, as_int(r.retain), mid)
        rep = ref.enc_publish(mkstr(eng, r.topic), r.payload, qos, 1, as_int(r.retain), mid)
        expect.append(first)
        if kind == 'pubrel':
            flow.rx('PUBREC', msgId=mid)
            expect.append(ref.enc_ack(ref.PUBREL, mid))
            rep = ref.enc_ack(ref.PUBREL, mid, dup=v31)
            if params.get('then_inbound'):
                # the client acknowledges an inbound QoS 1 PUBLISH (concrete identifier) before the PUBREL is repeated
                flow.rx_raw('PUBLISH', ref.enc_publish(mkstr(eng, [0x69]), [1], 1, 0, 0, 0x0808), {'qos': 1, 'msgId': 0x0808})
                expect.append(ref.enc_ack(ref.PUBACK, 0x0808))
    elif kind == 'sub':
        shape = params.get('shape', 'str')
        r = flow.subscribe(shape, qos=eng.int('sqos', 0, 2) if shape != 'list' else None)
        topics = [(mkstr(eng, t), q) for (t, q) in r.topics]
        expect.append(ref.enc_subscribe(r.msgId, topics))
        rep = ref.enc_subscribe(r.msgId, topics, dup=v31)
    elif kind == 'unsub':
        r = flow.unsubscribe(params.get('shape', 'str'))
        topics = [mkstr(eng, t) for t in r.topics]
        expect.append(ref.enc_unsubscribe(r.msgId, topics))
        rep = ref.enc_unsubscribe(r.msgId, topics, dup=v31)
    elif kind == 'inbound':
        # acknowledgements of inbound traffic
        iq = eng.int('iqos', 1, 2)
        imid = eng.int('imid', 1, 65535)
        flow.rx_raw('PUBLISH', ref.enc_publish(mkstr(eng, [0x69]), [1], iq, 0, 0, imid), {'qos': iq, 'msgId': imid})
        if iq == 1:
            expect.append(ref.enc_ack(ref.PUBACK, imid))
        else:
            expect.append(ref.enc_ack(ref.PUBREC, imid))
            flow.rx_raw('PUBREL', ref.enc_ack(ref.PUBREL, imid), {'msgId': imid})
            expect.append(ref.enc_ack(ref.PUBCOMP, imid))
        rep = None
    elif kind == 'ping':
        expect.append(ref.enc_pingreq())
        rep = None
    elif kind == 'disconnect':
        flow.disconnect()
        expect.append(ref.enc_disconnect())
        rep = None
    if kind not in ('pub0', 'inbound', 'disconnect', 'ping'):
        for i in range(params.get('retries', 2)):
            flow.advance(1100 * (2 ** i))
            expect.append(rep)
    writes = [_bl(e.a) for e in w.events if e.kind == 'write'][n0:]
    if kind == 'ping':
        writes = [_bl(e.a) for e in w.events if e.kind == 'write'][1:2]     # the PINGREQ written when CONNACK arrives
    eng.check(len(writes) == len(expect), 'live.count', '%s: %d packets written, %d expected' % (kind, len(writes), len(expect)))
    for i, (wr, ex) in enumerate(zip(writes, expect)):
        eng.check(bytes_eq(wr, ex), 'live.bytes', '%s: packet %d on the wire differs from the reference encoding' % (kind, i),
                  sig='live.bytes:%s:%s' % (kind, 'first' if i == 0 else 'later'))
        eng.count('live.first' if i == 0 else 'live.repeat')
    return flow.finish()


HARNESSES['live'] = h_live
