"""Independent reference encoder / strict decoder for MQTT 3.1 and 3.1.1 control packets.

Written from the OASIS MQTT 3.1.1 text (section 2.2 fixed header, 2.2.3 remaining length,
1.5.3 UTF-8 strings, 3.1 - 3.14 packet layouts) and the MQTT V3.1 specification for the
'MQIsdp'/3 variant.  It shares no code with mqtt/pdu.py and uses only arithmetic and
comparisons on its inputs, so it runs unchanged on native ints/bytes and on the proxy
values of the symbolic engine.  Byte sequences are Python lists.
"""


class Malformed(Exception):
    pass


CONNECT, CONNACK, PUBLISH, PUBACK, PUBREC, PUBREL, PUBCOMP = 1, 2, 3, 4, 5, 6, 7
SUBSCRIBE, SUBACK, UNSUBSCRIBE, UNSUBACK, PINGREQ, PINGRESP, DISCONNECT = 8, 9, 10, 11, 12, 13, 14
NAMES = {1: 'CONNECT', 2: 'CONNACK', 3: 'PUBLISH', 4: 'PUBACK', 5: 'PUBREC', 6: 'PUBREL', 7: 'PUBCOMP', 8: 'SUBSCRIBE',
         9: 'SUBACK', 10: 'UNSUBSCRIBE', 11: 'UNSUBACK', 12: 'PINGREQ', 13: 'PINGRESP', 14: 'DISCONNECT'}
CLIENT_TO_BROKER = (CONNECT, PUBLISH, PUBACK, PUBREC, PUBREL, PUBCOMP, SUBSCRIBE, UNSUBSCRIBE, PINGREQ, DISCONNECT)
BROKER_TO_CLIENT = (CONNACK, PUBLISH, PUBACK, PUBREC, PUBREL, PUBCOMP, SUBACK, UNSUBACK, PINGRESP)


def _i(x):
    """bool-like flag -> 0/1 integer value (native bool or symbolic boolean)"""
    if x is True:
        return 1
    if x is False:
        return 0
    f = getattr(x, '_int', None)
    return f() if f is not None else x


def codepoints(s):
    if isinstance(s, str):
        return [ord(c) for c in s]
    return list(s.cps)


# ------------------------------------------------------------------------------ primitives

def utf8_encode(s):
    """RFC 3629 encoding; surrogates D800..DFFF are not encodable [MQTT-1.5.3-1]"""
    out = []
    for c in codepoints(s):
        if c < 0x80:
            out.append(c)
        elif c < 0x800:
            out.append(0xC0 + c // 0x40)
            out.append(0x80 + c % 0x40)
        elif c < 0x10000:
            if c >= 0xD800 and c <= 0xDFFF:
                raise ValueError('surrogate')
            out.append(0xE0 + c // 0x1000)
            out.append(0x80 + (c // 0x40) % 0x40)
            out.append(0x80 + c % 0x40)
        else:
            out.append(0xF0 + c // 0x40000)
            out.append(0x80 + (c // 0x1000) % 0x40)
            out.append(0x80 + (c // 0x40) % 0x40)
            out.append(0x80 + c % 0x40)
    return out


def utf8_decode(b):
    """strict: shortest form only, no surrogates, max U+10FFFF; returns list of code points"""
    n = len(b)
    i = 0
    cps = []

    def tail(k):
        if k >= n:
            raise Malformed('truncated UTF-8 sequence')
        x = b[k]
        if x < 0x80 or x > 0xBF:
            raise Malformed('bad UTF-8 continuation byte')
        return x - 0x80
    while i < n:
        x = b[i]
        if x < 0x80:
            cps.append(x)
            i += 1
        elif x < 0xC0:
            raise Malformed('unexpected continuation byte')
        elif x < 0xE0:
            c = (x - 0xC0) * 0x40 + tail(i + 1)
            if c < 0x80:
                raise Malformed('overlong')
            cps.append(c)
            i += 2
        elif x < 0xF0:
            c = (x - 0xE0) * 0x1000 + tail(i + 1) * 0x40 + tail(i + 2)
            if c < 0x800:
                raise Malformed('overlong')
            if c >= 0xD800 and c <= 0xDFFF:
                raise Malformed('surrogate')
            cps.append(c)
            i += 3
        elif x < 0xF8:
            c = (x - 0xF0) * 0x40000 + tail(i + 1) * 0x1000 + tail(i + 2) * 0x40 + tail(i + 3)
            if c < 0x10000:
                raise Malformed('overlong')
            if c > 0x10FFFF:
                raise Malformed('beyond U+10FFFF')
            cps.append(c)
            i += 4
        else:
            raise Malformed('invalid UTF-8 lead byte')
    return cps


def enc_u16(v):
    return [v // 256, v % 256]


def enc_string(s):
    b = utf8_encode(s)
    if len(b) > 65535:
        raise ValueError('string longer than 65535 bytes')
    return [len(b) // 256, len(b) % 256] + b


def enc_bin(b):
    b = list(b)
    if len(b) > 65535:
        raise ValueError('binary data longer than 65535 bytes')
    return [len(b) // 256, len(b) % 256] + b


def enc_remlen(n):
    """section 2.2.3: 7 bits per byte, least significant group first, bit 7 = continuation"""
    if n < 0 or n > 268435455:
        raise ValueError('remaining length out of range')
    out = []
    while True:
        d = n % 128
        n = n // 128
        if n > 0:
            out.append(d + 128)
        else:
            out.append(d)
            return out


def packet(first, body):
    return [first] + enc_remlen(len(body)) + list(body)


# ------------------------------------------------------------------------------ encoders

def enc_connect(level, clientId, keepalive, clean, will=None, username=None, password=None):
    """will = (topic, message, qos, retain) or None; password = list of bytes or None"""
    if level == 3:
        vh = enc_string('MQIsdp') + [3]
    elif level == 4:
        vh = enc_string('MQTT') + [4]
    else:
        raise ValueError('protocol level')
    flags = 2 * _i(clean)
    if will is not None:
        flags = flags + 4 + 8 * will[2] + 32 * _i(will[3])
    if password is not None:
        flags = flags + 64
    if username is not None:
        flags = flags + 128
    vh = vh + [flags] + enc_u16(keepalive)
    pl = enc_string(clientId)
    if will is not None:
        pl = pl + enc_string(will[0]) + enc_string(will[1])
    if username is not None:
        pl = pl + enc_string(username)
    if password is not None:
        pl = pl + enc_bin(password)
    return packet(0x10, vh + pl)


def enc_connack(session_present, rc):
    return packet(0x20, [_i(session_present), rc])


def enc_publish(topic, payload, qos, dup, retain, msgId=None):
    """qos may be symbolic: the caller decides whether the identifier is present"""
    first = 0x30 + 8 * _i(dup) + 2 * qos + _i(retain)
    body = enc_string(topic)
    if msgId is not None:
        body = body + enc_u16(msgId)
    return packet(first, body + list(payload))


def enc_ack(ptype, msgId, dup=False):
    first = {PUBACK: 0x40, PUBREC: 0x50, PUBREL: 0x62, PUBCOMP: 0x70, UNSUBACK: 0xB0}[ptype]
    if dup:
        first = first + 8
    return packet(first, enc_u16(msgId))


def enc_subscribe(msgId, topics, dup=False):
    body = enc_u16(msgId)
    for (t, q) in topics:
        body = body + enc_string(t) + [q]
    return packet(0x8A if dup else 0x82, body)


def enc_suback(msgId, granted):
    """granted: list of return-code bytes"""
    return packet(0x90, enc_u16(msgId) + list(granted))


def enc_unsubscribe(msgId, topics, dup=False):
    body = enc_u16(msgId)
    for t in topics:
        body = body + enc_string(t)
    return packet(0xAA if dup else 0xA2, body)


def enc_pingreq():
    return [0xC0, 0]


def enc_pingresp():
    return [0xD0, 0]


def enc_disconnect():
    return [0xE0, 0]


# ------------------------------------------------------------------------------ strict decoder

def split_frames(b, lenient=False):
    """cut a byte list into complete frames; returns (frames, rest).  Raises Malformed when a
    remaining-length field is longer than four bytes (lenient: stops there instead)."""
    frames = []
    i = 0
    n = len(b)
    while True:
        if n - i < 2:
            return frames, b[i:]
        ln = 0
        mult = 1
        k = i + 1
        done = False
        while k < n:
            d = b[k]
            k += 1
            if d < 128:
                ln = ln + d * mult
                done = True
                break
            ln = ln + (d - 128) * mult
            mult = mult * 128
            if k - (i + 1) >= 4:
                if lenient:
                    return frames, b[i:]
                raise Malformed('remaining length field longer than 4 bytes')
        if not done:
            return frames, b[i:]
        if ln > n - k:
            return frames, b[i:]
        # ln is a value; make it a concrete index
        ln = ln.__index__() if hasattr(ln, '__index__') and not isinstance(ln, int) else ln
        frames.append((b[i], b[k:k + ln], b[i:k + ln]))
        i = k + ln


def _u16(b, i):
    if len(b) < i + 2:
        raise Malformed('truncated 16-bit integer')
    return b[i] * 256 + b[i + 1]


def _str(b, i):
    ln = _u16(b, i)
    if ln > len(b) - (i + 2):
        raise Malformed('string longer than packet')
    ln = ln.__index__() if not isinstance(ln, int) else ln
    cps = utf8_decode(b[i + 2:i + 2 + ln])
    return cps, i + 2 + ln


def parse_frame(first, body, v31=False, direction=None):
    """strict parse of one frame (first byte, body list) -> dict.  `v31` admits the DUP bit
    on PUBREL/SUBSCRIBE/UNSUBSCRIBE that protocol 3.1 defines."""
    ptype = first // 16
    flags = first % 16
    # type first (forks only when the nibble is genuinely undetermined)
    if ptype < 1 or ptype > 14:
        raise Malformed('reserved packet type')
    ptype = ptype.__index__() if not isinstance(ptype, int) else ptype
    if direction is not None and ptype not in direction:
        raise Malformed('packet type %s not allowed in this direction' % NAMES[ptype])
    r = {'type': NAMES[ptype], 'ptype': ptype}
    if ptype == PUBLISH:
        dup = flags // 8
        qos = (flags // 2) % 4
        retain = flags % 2
        if qos == 3:
            raise Malformed('QoS 3')
        topic, i = _str(body, 0)
        if qos == 0:
            if dup != 0:
                raise Malformed('DUP set on QoS 0 PUBLISH')
            mid = None
        else:
            mid = _u16(body, i)
            i += 2
            if mid == 0:
                raise Malformed('packet identifier 0')
        r.update(dup=dup, qos=qos, retain=retain, topic=topic, msgId=mid, payload=body[i:])
        return r
    if ptype in (PUBREL, SUBSCRIBE, UNSUBSCRIBE):
        if v31:
            if not (flags == 2 or flags == 10):
                raise Malformed('bad flags %s' % NAMES[ptype])
        elif flags != 2:
            raise Malformed('reserved flags must be 0010 for %s' % NAMES[ptype])
        r['dup'] = flags // 8
    elif flags != 0 and not (v31 and ptype in (PUBACK, PUBREC, PUBCOMP)):
        raise Malformed('reserved flags must be 0 for %s' % NAMES[ptype])
    if ptype in (PUBACK, PUBREC, PUBREL, PUBCOMP, UNSUBACK):
        if len(body) != 2:
            raise Malformed('%s body must be 2 bytes' % NAMES[ptype])
        r['msgId'] = _u16(body, 0)
        return r
    if ptype in (PINGREQ, PINGRESP, DISCONNECT):
        if len(body) != 0:
            raise Malformed('%s must have no body' % NAMES[ptype])
        return r
    if ptype == CONNACK:
        if len(body) != 2:
            raise Malformed('CONNACK body must be 2 bytes')
        r['session'] = body[0] % 2
        r['rc'] = body[1]
        return r
    if ptype == SUBACK:
        if len(body) < 3:
            raise Malformed('SUBACK without return codes')
        r['msgId'] = _u16(body, 0)
        r['granted'] = body[2:]
        return r
    if ptype == SUBSCRIBE:
        r['msgId'] = _u16(body, 0)
        i = 2
        topics = []
        while i < len(body):
            t, i = _str(body, i)
            if i >= len(body):
                raise Malformed('SUBSCRIBE topic without QoS')
            q = body[i]
            if q > 2:
                raise Malformed('requested QoS > 2')
            i += 1
            topics.append((t, q))
        if not topics:
            raise Malformed('SUBSCRIBE without topics')
        if r['msgId'] == 0:
            raise Malformed('packet identifier 0')
        r['topics'] = topics
        return r
    if ptype == UNSUBSCRIBE:
        r['msgId'] = _u16(body, 0)
        i = 2
        topics = []
        while i < len(body):
            t, i = _str(body, i)
            topics.append(t)
        if not topics:
            raise Malformed('UNSUBSCRIBE without topics')
        if r['msgId'] == 0:
            raise Malformed('packet identifier 0')
        r['topics'] = topics
        return r
    if ptype == CONNECT:
        name, i = _str(body, 0)
        if len(body) < i + 4:
            raise Malformed('truncated CONNECT variable header')
        level = body[i]
        if name == [ord(c) for c in 'MQTT'] and level == 4:
            r['level'] = 4
        elif name == [ord(c) for c in 'MQIsdp'] and level == 3:
            r['level'] = 3
        else:
            raise Malformed('protocol name / level')
        fl = body[i + 1]
        if fl % 2 != 0:
            raise Malformed('CONNECT reserved flag')
        clean = (fl // 2) % 2
        will = (fl // 4) % 2
        wqos = (fl // 8) % 4
        wret = (fl // 32) % 2
        pw = (fl // 64) % 2
        us = (fl // 128) % 2
        r['keepalive'] = _u16(body, i + 2)
        i += 4
        r['clientId'], i = _str(body, i)
        if will:
            if wqos == 3:
                raise Malformed('will QoS 3')
            wt, i = _str(body, i)
            wm, i = _str(body, i)
            r['will'] = (wt, wm, wqos, wret)
        else:
            if wqos != 0 or wret != 0:
                raise Malformed('will QoS/retain without will flag')
            r['will'] = None
        if us:
            r['username'], i = _str(body, i)
        else:
            r['username'] = None
            if pw and r['level'] == 4:
                raise Malformed('password without user name')
        if pw:
            ln = _u16(body, i)
            if ln > len(body) - (i + 2):
                raise Malformed('password longer than packet')
            ln = ln.__index__() if not isinstance(ln, int) else ln
            r['password'] = body[i + 2:i + 2 + ln]
            i = i + 2 + ln
        else:
            r['password'] = None
        if i != len(body):
            raise Malformed('trailing bytes in CONNECT')
        r['clean'] = clean
        return r
    raise Malformed('unhandled type')


def parse_stream(b, v31=False, direction=None):
    """strict parse of a complete stream: list of packets; raises Malformed on trailing bytes"""
    frames, rest = split_frames(list(b))
    if len(rest):
        raise Malformed('incomplete packet at end of stream (%d bytes)' % len(rest))
    return [parse_frame(f, body, v31, direction) for (f, body, raw) in frames]
