"""Scenario building blocks: canonical prefixes and broker packets with symbolic fields."""
from symex import env as senv
from . import refcodec as ref
from .world import World, mkstr, mkbytes, mkbytearray, blist, cplist, all_eq, as_int

V = {31: None, 311: None}


def version(v):
    return senv.mqtt.v31 if v == 31 else senv.mqtt.v311


def client_id(eng):
    return mkstr(eng, [0x63, 0x69, 0x64])


def topic(eng, *cps):
    return mkstr(eng, list(cps) or [0x74])


def connect(w, c, keepalive=0, clean=True, ver=311, **kw):
    return w.api(c, 'connect', 'connect', client_id(w.eng), keepalive=keepalive, cleanStart=clean, version=version(ver), **kw)


def connack(w, c, session=0, rc=0):
    return w.rx_list(c, ref.enc_connack(session, rc))


def connected(eng, profile='pubsubs', keepalive=0, clean=True, ver=311, naddr=1, world=None, ai=0):
    """a protocol that went through connect() + CONNACK(0)"""
    w = world or World(eng, profile, naddr)
    c = w.build(ai)
    w.begin_step('connect')
    c.connect_tr = connect(w, c, keepalive, clean, ver)
    w.begin_step('connack')
    connack(w, c)
    c.version = ver
    c.clean = clean
    return w, c


# ------------------------------------------------------------------------------ broker packets

BROKER_KINDS = ('CONNACK', 'PUBLISH0', 'PUBLISH1', 'PUBLISH2', 'PUBACK', 'PUBREC', 'PUBREL', 'PUBCOMP', 'SUBACK', 'UNSUBACK', 'PINGRESP')


def broker_packet(eng, kind, ntopic=1, npayload=1, ngranted=1, payload_filler=0):
    """reference-encoded broker packet of `kind` with symbolic fields -> (byte list, fields)"""
    if kind == 'CONNACK0':
        sp = eng.int('sp', 0, 1)
        return ref.enc_connack(sp, 0), {'kind': kind, 'session': sp, 'rc': 0}
    if kind == 'CONNACK':
        sp, rc = eng.int('sp', 0, 1), eng.int('rc', 0, 255)
        return ref.enc_connack(sp, rc), {'kind': kind, 'session': sp, 'rc': rc}
    if kind.startswith('PUBLISH'):
        qos = int(kind[-1])
        t = [eng.int('tc', 0x20, 0x7E) for _ in range(ntopic)]
        pl = [eng.int('pb', 0, 255) for _ in range(npayload)]
        if payload_filler:
            pl = pl[:1] + [0x5A] * payload_filler + pl[1:]
        retain = eng.int('retain', 0, 1)
        if qos:
            dup = eng.int('dup', 0, 1)
            mid = eng.int('mid', 1, 65535)
        else:
            dup, mid = 0, None
        return ref.enc_publish(mkstr(eng, t), pl, qos, dup, retain, mid), {
            'kind': kind, 'qos': qos, 'topic': t, 'payload': pl, 'retain': retain, 'dup': dup, 'msgId': mid}
    if kind in ('PUBACK', 'PUBREC', 'PUBREL', 'PUBCOMP', 'UNSUBACK'):
        mid = eng.int('mid', 0, 65535)
        return ref.enc_ack(getattr(ref, kind), mid), {'kind': kind, 'msgId': mid}
    if kind == 'SUBACK':
        mid = eng.int('mid', 0, 65535)
        g = [eng.int('g', 0, 255) for _ in range(ngranted)]
        return ref.enc_suback(mid, g), {'kind': kind, 'msgId': mid, 'granted': g}
    if kind == 'PINGRESP':
        return ref.enc_pingresp(), {'kind': kind}
    raise ValueError(kind)


def fire_outcome(tr):
    """('pending',) | ('ok', value) | ('fail', exception) | ('multi', n)"""
    if not tr.fired:
        return ('pending',)
    if len(tr.fired) > 1:
        return ('multi', len(tr.fired))
    s, ok, v = tr.fired[0]
    return ('ok', v) if ok else ('fail', v.value)


# ------------------------------------------------------------------------------ trace comparison

def compare_traces(eng, t1, t2, label, detail=''):
    """two observation logs (World.trace()) must be equal: structure concretely, values by validity"""
    def cmp(a, b):
        if isinstance(a, (list, tuple)) and isinstance(b, (list, tuple)):
            if len(a) != len(b):
                return False
            r = True
            for x, y in zip(a, b):
                c = cmp(x, y)
                if c is False:
                    return False
                if c is not True:
                    r = c if r is True else (r & c)
            return r
        if hasattr(a, 'd') and hasattr(b, 'd'):
            return all_eq(a.d, b.d)
        if hasattr(a, 'cps') or hasattr(b, 'cps') or isinstance(a, str) and isinstance(b, str):
            if isinstance(a, str) and isinstance(b, str):
                return a == b
            return all_eq(cplist(a), cplist(b))
        if a is None or b is None:
            return a is None and b is None
        c = (a == b)
        if c is NotImplemented:
            return False
        return c
    return eng.check(cmp(t1, t2), label, detail)


# ------------------------------------------------------------------------------ busy prefix

def busy_prefix(eng, profile, state, keepalive=0, clean=True, ver=311, jitter_pool=None, window=4):
    """protocol of `profile` in `state` ('idle', 'connecting', 'connected') with one request of
    every kind the profile allows pending.  Returns (world, conn, {tag: Tracked})."""
    w = World(eng, profile, jitter_pool=jitter_pool)
    req = {}
    if state == 'reconnecting':
        # handshake in progress on a resumed persistent session: requests carried over from a lost connection
        c0 = w.build()
        w.begin_step('connect-0')
        connect(w, c0, 0, False, ver)
        w.begin_step('connack-0')
        connack(w, c0)
        w.begin_step('requests-0')
        c0.p.setWindowSize(window)
        if profile in ('publisher', 'pubsubs'):
            req['pub1'] = w.api(c0, 'publish', 'pub1', topic(eng), mkbytearray(eng, [1]), qos=1)
            req['pub2'] = w.api(c0, 'publish', 'pub2', topic(eng), mkbytearray(eng, [2]), qos=2)
            req['pub3'] = w.api(c0, 'publish', 'pub3', topic(eng), mkbytearray(eng, [3]), qos=2)
            w.begin_step('pubrec-0')
            w.rx_list(c0, ref.enc_ack(ref.PUBREC, req['pub3'].msgId))
        if profile in ('subscriber', 'pubsubs'):
            w.begin_step('inbound-qos2-0')
            w.rx_list(c0, ref.enc_publish(topic(eng, 0x69), [9], 2, 0, 0, 77))
        w.begin_step('lose-0')
        w.lose(c0)
        c = w.build()
        if profile in ('subscriber', 'pubsubs'):
            c.stored_rx = {'msgId': 77, 'topic': [0x69], 'payload': [9]}
        w.begin_step('connect')
        c.connect_tr = connect(w, c, keepalive, False, ver)
        req['connect'] = c.connect_tr
        c.version = ver
        c.clean = False
        return w, c, req
    c = w.build()
    if state == 'idle':
        return w, c, req
    w.begin_step('connect')
    c.connect_tr = connect(w, c, keepalive, clean, ver)
    req['connect'] = c.connect_tr
    c.version = ver
    c.clean = clean
    pub = profile in ('publisher', 'pubsubs')
    sub = profile in ('subscriber', 'pubsubs')
    if state == 'connecting':
        if pub:
            w.begin_step('early-publish')
            c.p.setWindowSize(window)
            req['pub1'] = w.api(c, 'publish', 'pub1', topic(eng), mkbytearray(eng, [1]), qos=1)
        return w, c, req
    w.begin_step('connack')
    connack(w, c)
    w.begin_step('requests')
    c.p.setWindowSize(window)
    if pub:
        req['pub1'] = w.api(c, 'publish', 'pub1', topic(eng), mkbytearray(eng, [1]), qos=1)
        req['pub2'] = w.api(c, 'publish', 'pub2', topic(eng), mkbytearray(eng, [2]), qos=2)
        req['pub3'] = w.api(c, 'publish', 'pub3', topic(eng), mkbytearray(eng, [3]), qos=2)
        w.begin_step('pubrec')
        if req['pub3'] is not None and req['pub3'].msgId is not None:
            w.rx_list(c, ref.enc_ack(ref.PUBREC, req['pub3'].msgId))
    if sub:
        w.begin_step('sub-requests')
        req['sub'] = w.api(c, 'subscribe', 'sub', topic(eng), 1)
        req['unsub'] = w.api(c, 'unsubscribe', 'unsub', topic(eng))
        w.begin_step('inbound-qos2')
        w.rx_list(c, ref.enc_publish(topic(eng, 0x69), [9], 2, 0, 0, 77))
        c.stored_rx = {'msgId': 77, 'topic': [0x69], 'payload': [9]}
    return w, c, req
